import JsonVerif.Spec.Spans
import JsonVerif.Lemmas.GramSound
import JsonVerif.Lemmas.MachineRD
import JsonVerif.Lemmas.Mapped
/-!
# The code map built by the parser is the one the grammar induces (C05)
-/
namespace JsonVerif

theorem pos_of {s s' : PS} (ha : Adv s s') {w : List Char} (hr : s.rest = w ++ s'.rest) :
    s'.pos = s.pos + utf8Len w := by
  obtain ⟨⟨w', e, q⟩, _, _⟩ := ha
  have : w' = w := by
    rw [hr] at e
    exact (List.append_cancel_right e).symm
  rw [q, this]

theorem endFragment_list {s : PS} {i : Nat} {s' : PS} (h : s.endFragment i = .ok s') :
    ∃ e, s.cm.toList[i]? = some e ∧
      s'.cm.toList = s.cm.toList.set i ⟨e.start, s.pos, s.cm.size - i⟩ := by
  unfold PS.endFragment at h
  split at h
  · rename_i e he
    cases h
    exact ⟨e, by simpa using he, by simp [Array.toList_setIfInBounds]⟩
  · cases h

theorem reserve_list (s : PS) : s.reserve.cm.toList = s.cm.toList ++ [⟨s.pos, s.pos, 0⟩] := by
  simp [PS.reserve]

theorem push_list {s s' : PS} {x : CMEntry} (h : s'.cm = s.cm.push x) :
    s'.cm.toList = s.cm.toList ++ [x] := by rw [h]; simp

@[simp] theorem utf8Size_colon : ':'.utf8Size = 1 := by decide
@[simp] theorem utf8Size_comma : ','.utf8Size = 1 := by decide
@[simp] theorem utf8Size_lbr : '['.utf8Size = 1 := by decide
@[simp] theorem utf8Size_rbr : ']'.utf8Size = 1 := by decide
@[simp] theorem utf8Size_lbc : '{'.utf8Size = 1 := by decide
@[simp] theorem utf8Size_rbc : '}'.utf8Size = 1 := by decide

/-- `key ws :` — text, positions and the two code-map entries it leaves (entry placeholder, key) -/
theorem lexKeyColon_span {s : PS} {key : List Char} {e : Nat} {s' : PS}
    (h : lexKeyColon so s = .ok (key, e, s')) :
    e = s.cm.size ∧ ∃ k w2, s.rest = k ++ w2 ++ ':' :: s'.rest ∧ GString k key ∧ IsWsL w2 ∧
      s'.cm.toList = s.cm.toList ++ [⟨s.pos, s.pos, 0⟩, ⟨s.pos, s.pos + utf8Len k, 1⟩] ∧
      s'.pos = s.pos + utf8Len k + utf8Len w2 + 1 := by
  have hadv := lexKeyColon_adv h
  unfold lexKeyColon at h
  simp only [PS.beginFragment_fst, PS.beginFragment_snd] at h
  split at h
  · cases h
  · rename_i key' s1 h1
    split at h
    · cases h
    · rename_i s2 h2
      split at h
      · cases h
      · rename_i s3 h3
        cases h
        obtain ⟨k, hk, hg⟩ := lexString_sound h1
        obtain ⟨w2, hw, hws⟩ := skipWs_sound h2
        have e3 := expectChar_sound h3
        simp only [beginFragment_rest] at hk
        have hr : s.rest = k ++ w2 ++ ':' :: s'.rest := by rw [hk, hw, e3]; simp
        refine ⟨rfl, k, w2, hr, hg, hws, ?_, ?_⟩
        · have c1 := lexString_cm h1
          have c2 := skipWs_cm h2
          have c3 := (expectChar_cm h3).1
          have p1 : s1.pos = s.pos + utf8Len k := by
            have := pos_of (lexString_adv h1) (w := k) (by simpa using hk)
            simpa using this
          rw [c3, c2, c1]
          simp [PS.reserve, p1]
        · have := pos_of hadv (w := k ++ w2 ++ [':']) (by rw [hr]; simp)
          rw [this]; simp; omega

end JsonVerif

namespace JsonVerif

def FragSpec (s s' : PS) : Fragment → Prop
  | .value v => ∃ w t cm, s.rest = w ++ t ++ s'.rest ∧ IsWsL w ∧ SValue (s.pos + utf8Len w) t v cm ∧
      s'.cm.toList = s.cm.toList ++ cm ∧ s'.pos = s.pos + utf8Len w + utf8Len t
  | .beginArray i => i = s.cm.size ∧ ∃ w w0, s.rest = w ++ '[' :: (w0 ++ s'.rest) ∧ IsWsL w ∧ IsWsL w0 ∧
      s'.cm.toList = s.cm.toList ++ [⟨s.pos + utf8Len w, s.pos + utf8Len w, 0⟩] ∧
      s'.pos = s.pos + utf8Len w + 1 + utf8Len w0
  | .beginObject i key e => i = s.cm.size ∧ e = s.cm.size + 1 ∧ ∃ w w0 k w2,
      s.rest = w ++ '{' :: (w0 ++ k ++ w2 ++ ':' :: s'.rest) ∧ IsWsL w ∧ IsWsL w0 ∧ GString k key ∧ IsWsL w2 ∧
      s'.cm.toList = s.cm.toList ++ [⟨s.pos + utf8Len w, s.pos + utf8Len w, 0⟩,
        ⟨s.pos + utf8Len w + 1 + utf8Len w0, s.pos + utf8Len w + 1 + utf8Len w0, 0⟩,
        ⟨s.pos + utf8Len w + 1 + utf8Len w0, s.pos + utf8Len w + 1 + utf8Len w0 + utf8Len k, 1⟩] ∧
      s'.pos = s.pos + utf8Len w + 1 + utf8Len w0 + utf8Len k + utf8Len w2 + 1

theorem skipWs_span {s s' : PS} (h : skipWs s = .ok s') :
    ∃ w, s.rest = w ++ s'.rest ∧ IsWsL w ∧ s'.pos = s.pos + utf8Len w ∧ s'.cm = s.cm := by
  obtain ⟨w, hw, hws⟩ := skipWs_sound h
  exact ⟨w, hw, hws, pos_of (skipWs_adv h) hw, skipWs_cm h⟩

theorem utf8Len_null : utf8Len ['n', 'u', 'l', 'l'] = 4 := by decide
theorem utf8Len_true : utf8Len ['t', 'r', 'u', 'e'] = 4 := by decide
theorem utf8Len_false : utf8Len ['f', 'a', 'l', 's', 'e'] = 5 := by decide

theorem parseFragment_span {ctx : Ctx} {s : PS} {f : Fragment} {s' : PS}
    (h : parseFragment so ctx s = .ok (f, s')) : FragSpec s s' f := by
  unfold parseFragment at h
  split at h
  · cases h
  · rename_i s0 h0
    obtain ⟨w, hw, hws, hp0, hc0⟩ := skipWs_span h0
    split at h
    · cases h
    · rename_i c r hr
      split at h
      · -- null
        split at h
        · cases h
        · rename_i s1 h1
          cases h
          have sp := lexNull_spec h1
          have p1 := pos_of (lexNull_adv h1) sp.1
          refine ⟨w, _, _, by rw [hw, sp.1]; simp, hws, .null _, ?_, ?_⟩
          · rw [push_list sp.2, hc0, p1, hp0, utf8Len_null]
          · rw [p1, hp0, utf8Len_null]
      · split at h
        · -- bool
          split at h
          · cases h
          · rename_i b s1 h1
            cases h
            have sp := lexBool_spec h1
            have p1 := pos_of (lexBool_adv h1) sp.1
            cases b
            · simp only [Bool.false_eq_true, if_false] at sp p1
              refine ⟨w, _, _, by rw [hw, sp.1]; simp, hws, .false _, ?_, ?_⟩
              · rw [push_list sp.2, hc0, p1, hp0, utf8Len_false]
              · rw [p1, hp0, utf8Len_false]
            · simp only [if_true] at sp p1
              refine ⟨w, _, _, by rw [hw, sp.1]; simp, hws, .true _, ?_, ?_⟩
              · rw [push_list sp.2, hc0, p1, hp0, utf8Len_true]
              · rw [p1, hp0, utf8Len_true]
        · split at h
          · -- number
            split at h
            · cases h
            · rename_i n s1 h1
              cases h
              obtain ⟨hr1, hn⟩ := lexNumber_sound h1
              have sp := lexNumber_spec h1
              refine ⟨w, n, _, by rw [hw, hr1]; simp, hws, .number _ n hn, ?_, ?_⟩
              · rw [push_list sp.2.2, hc0, sp.2.1, hp0]
              · rw [sp.2.1, hp0]
          · split at h
            · -- string
              split at h
              · cases h
              · rename_i str s1 h1
                cases h
                obtain ⟨t, ht, hg⟩ := lexString_sound h1
                have p1 := pos_of (lexString_adv h1) ht
                refine ⟨w, t, _, by rw [hw, ht]; simp, hws, .string _ t str hg, ?_, ?_⟩
                · rw [push_list (lexString_cm h1), hc0, p1, hp0]
                · rw [p1, hp0]
            · split at h
              · -- array
                unfold startArray at h
                simp only [PS.beginFragment_fst, PS.beginFragment_snd] at h
                split at h
                · cases h
                · rename_i s1 h1
                  have e1 := expectChar_sound h1
                  have c1 := (expectChar_cm h1).1
                  have p1 := pos_of (expectChar_adv h1) (w := ['[']) (by simpa using e1)
                  simp only [beginFragment_rest] at e1
                  simp only [beginFragment_pos, utf8Len_cons, utf8Len_nil, utf8Size_lbr] at p1
                  split at h
                  · cases h
                  · rename_i s2 h2
                    obtain ⟨w0, hw0, hws0, hp2, hc2⟩ := skipWs_span h2
                    split at h
                    · rename_i d r2 hr2
                      split at h
                      · rename_i hd
                        split at h
                        · cases h
                        · rename_i s3 h3
                          cases h
                          have hp := endFragment_rest h3
                          have hcm := leaf_end (s := s0) (s1 := s2.adv d r2) (by simp [PS.adv, hc2, c1]) h3
                          refine ⟨w, '[' :: (w0 ++ [']']), _, ?_, hws, .arrEmpty _ w0 hws0, ?_, ?_⟩
                          · rw [hw, e1, hw0, hr2, hd, hp.1]; simp [PS.adv]
                          · rw [push_list hcm, hc0]
                            simp only [PS.adv, hd, utf8Size_rbr]
                            rw [hp2, p1, hp0]
                          · rw [hp.2.1]
                            simp only [PS.adv, hd, utf8Size_rbr, utf8Len_cons, utf8Len_append, utf8Len_nil, utf8Size_lbr]
                            rw [hp2, p1, hp0]; omega
                      · cases h
                        refine ⟨by rw [hc0], w, w0, by rw [hw, e1, hw0], hws, hws0, ?_, ?_⟩
                        · rw [hc2, c1, reserve_list, hc0, hp0]
                        · rw [hp2, p1, hp0]
                    · cases h
                      refine ⟨by rw [hc0], w, w0, by rw [hw, e1, hw0], hws, hws0, ?_, ?_⟩
                      · rw [hc2, c1, reserve_list, hc0, hp0]
                      · rw [hp2, p1, hp0]
              · split at h
                · -- object
                  unfold startObject at h
                  simp only [PS.beginFragment_fst, PS.beginFragment_snd] at h
                  split at h
                  · cases h
                  · rename_i s1 h1
                    have e1 := expectChar_sound h1
                    have c1 := (expectChar_cm h1).1
                    have p1 := pos_of (expectChar_adv h1) (w := ['{']) (by simpa using e1)
                    simp only [beginFragment_rest] at e1
                    simp only [beginFragment_pos, utf8Len_cons, utf8Len_nil, utf8Size_lbc] at p1
                    split at h
                    · cases h
                    · rename_i s2 h2
                      obtain ⟨w0, hw0, hws0, hp2, hc2⟩ := skipWs_span h2
                      have hkey : ∀ {f s'}, startObjectKey so s0.cm.size s2 = .ok (f, s') → FragSpec s s' f := by
                        intro f s' hh
                        unfold startObjectKey at hh
                        split at hh
                        · cases hh
                        · rename_i key e s3 hk
                          cases hh
                          obtain ⟨he, k, w2, hr, hg, hws2, hcm, hpos⟩ := lexKeyColon_span hk
                          refine ⟨by rw [hc0], ?_, w, w0, k, w2, ?_, hws, hws0, hg, hws2, ?_, ?_⟩
                          · rw [he, hc2, c1, ← hc0]; simp [PS.reserve]
                          · rw [hw, e1, hw0, hr]; simp
                          · rw [hcm, hc2, c1, reserve_list, hc0, hp2, p1, hp0]; simp
                          · rw [hpos, hp2, p1, hp0]
                      split at h
                      · rename_i d r2 hr2
                        split at h
                        · rename_i hd
                          split at h
                          · cases h
                          · rename_i s3 h3
                            cases h
                            have hp := endFragment_rest h3
                            have hcm := leaf_end (s := s0) (s1 := s2.adv d r2) (by simp [PS.adv, hc2, c1]) h3
                            refine ⟨w, '{' :: (w0 ++ ['}']), _, ?_, hws, .objEmpty _ w0 hws0, ?_, ?_⟩
                            · rw [hw, e1, hw0, hr2, hd, hp.1]; simp [PS.adv]
                            · rw [push_list hcm, hc0]
                              simp only [PS.adv, hd, utf8Size_rbc]
                              rw [hp2, p1, hp0]
                            · rw [hp.2.1]
                              simp only [PS.adv, hd, utf8Size_rbc, utf8Len_cons, utf8Len_append, utf8Len_nil, utf8Size_lbc]
                              rw [hp2, p1, hp0]; omega
                        · exact hkey h
                      · exact hkey h
                · cases h

end JsonVerif

namespace JsonVerif

def ArrContSpan (i : Nat) (s s' : PS) : ArrCont → Prop
  | .item => ∃ w, IsWsL w ∧ s.rest = w ++ ',' :: s'.rest ∧ s'.cm = s.cm ∧ s'.pos = s.pos + utf8Len w + 1
  | .end_ => ∃ w e, IsWsL w ∧ s.rest = w ++ ']' :: s'.rest ∧ s'.pos = s.pos + utf8Len w + 1 ∧
      s.cm.toList[i]? = some e ∧ s'.cm.toList = s.cm.toList.set i ⟨e.start, s'.pos, s.cm.size - i⟩

theorem contArray_span {i : Nat} {s : PS} {c : ArrCont} {s' : PS} (h : contArray i s = .ok (c, s')) :
    ArrContSpan i s s' c := by
  unfold contArray at h
  split at h
  · cases h
  · rename_i s0 h0
    obtain ⟨w, hw, hws, hp0, hc0⟩ := skipWs_span h0
    split at h
    · cases h
    · rename_i d r hr
      split at h
      · rename_i hd; cases h
        exact ⟨w, hws, by rw [hw, hr, hd]; rfl, by simp [PS.adv, hc0], by simp [PS.adv, hd, hp0]⟩
      · split at h
        · rename_i hd
          split at h
          · cases h
          · rename_i s1 h1
            cases h
            have hp := endFragment_rest h1
            obtain ⟨e, he, hcm⟩ := endFragment_list h1
            simp only [PS.adv, hc0] at he hcm
            refine ⟨w, e, hws, by rw [hw, hr, hd, hp.1]; rfl, ?_, he, ?_⟩
            · rw [hp.2.1]; simp [PS.adv, hd, hp0]
            · rw [hcm, hp.2.1]; rfl
        · cases h

def ObjContSpan (i : Nat) (s s' : PS) : ObjCont → Prop
  | .entry key e => e = s.cm.size ∧ ∃ w w1 k w2, s.rest = w ++ ',' :: (w1 ++ k ++ w2 ++ ':' :: s'.rest) ∧
      IsWsL w ∧ IsWsL w1 ∧ GString k key ∧ IsWsL w2 ∧
      s'.cm.toList = s.cm.toList ++ [⟨s.pos + utf8Len w + 1 + utf8Len w1, s.pos + utf8Len w + 1 + utf8Len w1, 0⟩,
        ⟨s.pos + utf8Len w + 1 + utf8Len w1, s.pos + utf8Len w + 1 + utf8Len w1 + utf8Len k, 1⟩] ∧
      s'.pos = s.pos + utf8Len w + 1 + utf8Len w1 + utf8Len k + utf8Len w2 + 1
  | .end_ => ∃ w e, IsWsL w ∧ s.rest = w ++ '}' :: s'.rest ∧ s'.pos = s.pos + utf8Len w + 1 ∧
      s.cm.toList[i]? = some e ∧ s'.cm.toList = s.cm.toList.set i ⟨e.start, s'.pos, s.cm.size - i⟩

theorem contObject_span {i : Nat} {s : PS} {c : ObjCont} {s' : PS}
    (h : contObject so i s = .ok (c, s')) : ObjContSpan i s s' c := by
  unfold contObject at h
  split at h
  · cases h
  · rename_i s0 h0
    obtain ⟨w, hw, hws, hp0, hc0⟩ := skipWs_span h0
    split at h
    · cases h
    · rename_i d r hr
      split at h
      · rename_i hd
        split at h
        · cases h
        · rename_i s1 h1
          obtain ⟨w1, hw1, hws1, hp1, hc1⟩ := skipWs_span h1
          split at h
          · cases h
          · rename_i key e s2 h2
            cases h
            obtain ⟨he, k, w2, hk, hg, hws2, hcm, hpos⟩ := lexKeyColon_span h2
            simp only [PS.adv] at hw1 hp1 hc1
            refine ⟨by rw [he, hc1, hc0], w, w1, k, w2, ?_, hws, hws1, hg, hws2, ?_, ?_⟩
            · rw [hw, hr, hd, hw1, hk]; simp
            · rw [hcm, hc1, hc0, hp1, hp0, hd]; simp
            · rw [hpos, hp1, hp0, hd]; simp
      · split at h
        · rename_i hd
          split at h
          · cases h
          · rename_i s1 h1
            cases h
            have hp := endFragment_rest h1
            obtain ⟨e, he, hcm⟩ := endFragment_list h1
            simp only [PS.adv, hc0] at he hcm
            refine ⟨w, e, hws, by rw [hw, hr, hd, hp.1]; rfl, ?_, he, ?_⟩
            · rw [hp.2.1]; simp [PS.adv, hd, hp0]
            · rw [hcm, hp.2.1]; rfl
        · cases h

theorem getElem?_app_left {α} {L R : List α} {i : Nat} (h : i < L.length) : (L ++ R)[i]? = L[i]? := by
  simp [List.getElem?_append_left h]

theorem set_app_left {α} {L R : List α} {i : Nat} {x : α} (h : i < L.length) :
    (L ++ R).set i x = L.set i x ++ R := by
  simp [List.set_append, h]

theorem set_app_at {α} (L R : List α) (a x : α) : (L ++ a :: R).set L.length x = L ++ x :: R := by
  simp [List.set_append]

end JsonVerif

namespace JsonVerif

theorem sitems_prepend {b : Nat} {t : List Char} {vs : List JValue} {cm : List CMEntry} {w0 : List Char}
    (h : SItems (b + utf8Len w0) t vs cm) (hw : IsWsL w0) : SItems b (w0 ++ t) vs cm := by
  cases h with
  | one _ w1 t w2 v cm h1 hv h2 =>
    have := SItems.one b (w0 ++ w1) t w2 v cm (hw.append h1) (by simpa [Nat.add_assoc] using hv) h2
    simpa using this
  | cons _ w1 t w2 ts v vs cm1 cm2 h1 hv h2 hts =>
    have := SItems.cons b (w0 ++ w1) t w2 ts v vs cm1 cm2 (hw.append h1) (by simpa [Nat.add_assoc] using hv) h2
      (by simpa [Nat.add_assoc] using hts)
    simpa using this

/-- **The parser's code map is the grammar's code map** (induction on the fuel of the
    recursive-descent reference; transported to the machine by theorem B) -/
theorem rd_span : ∀ n,
    (∀ ctx s v s', rdValue so n ctx s = .ok (v, s') →
      ∃ w t cm, s.rest = w ++ t ++ s'.rest ∧ IsWsL w ∧ SValue (s.pos + utf8Len w) t v cm ∧
        s'.cm.toList = s.cm.toList ++ cm ∧ s'.pos = s.pos + utf8Len w + utf8Len t) ∧
    (∀ acc i s v s', rdItems so n acc i s = .ok (v, s') → i < s.cm.size →
      ∃ t vs cmI e, s.rest = t ++ ']' :: s'.rest ∧ SItems s.pos t vs cmI ∧ v = .array (acc ++ vs) ∧
        s'.pos = s.pos + utf8Len t + 1 ∧ s.cm.toList[i]? = some e ∧
        s'.cm.toList = (s.cm.toList ++ cmI).set i ⟨e.start, s'.pos, s.cm.size + cmI.length - i⟩) ∧
    (∀ acc i key e s v s', rdMembers so n acc i key e s = .ok (v, s') →
      ∀ (T : List CMEntry) (ee : CMEntry) (ke : Nat), s.cm.toList = T ++ [ee, ⟨ee.start, ke, 1⟩] →
      T.length = e → i < e →
      ∃ tl es cmT ei, s.rest = tl ++ '}' :: s'.rest ∧ STail ee.start ke s.pos tl key es cmT ∧
        v = .object (acc ++ es) ∧ s'.pos = s.pos + utf8Len tl + 1 ∧ T[i]? = some ei ∧
        s'.cm.toList = (T ++ cmT).set i ⟨ei.start, s'.pos, e + cmT.length - i⟩) := by
  intro n
  induction n with
  | zero => refine ⟨?_, ?_, ?_⟩ <;> intros <;> simp_all [rdValue, rdItems, rdMembers]
  | succ n ih =>
    obtain ⟨ihV, ihI, ihM⟩ := ih
    refine ⟨?_, ?_, ?_⟩
    · -- values
      intro ctx s v s' h
      simp only [rdValue] at h
      split at h
      · cases h
      · rename_i v1 s1 hf
        cases h
        exact parseFragment_span hf
      · rename_i i s1 hf
        obtain ⟨hi, w, w0, hr, hws, hws0, hcm1, hp1⟩ := parseFragment_span hf
        have hsz : s1.cm.size = s.cm.size + 1 := by
          have := congrArg List.length hcm1; simpa using this
        obtain ⟨t, vs, cmI, e, ht, hI, rfl, hp', he, hcm'⟩ := ihI _ _ _ _ _ h (by omega)
        have he' : e = ⟨s.pos + utf8Len w, s.pos + utf8Len w, 0⟩ := by
          rw [hcm1, hi] at he
          simpa using he.symm
        refine ⟨w, '[' :: ((w0 ++ t) ++ [']']), ⟨s.pos + utf8Len w, s'.pos, 1 + cmI.length⟩ :: cmI, ?_, hws, ?_, ?_, ?_⟩
        · rw [hr, ht]; simp
        · have hI' : SItems (s.pos + utf8Len w + 1) (w0 ++ t) vs cmI := by
            rw [hp1] at hI
            exact sitems_prepend hI hws0
          have := SValue.arr (s.pos + utf8Len w) (w0 ++ t) vs cmI hI'
          have hpe : s'.pos = s.pos + utf8Len w + 1 + utf8Len (w0 ++ t) + 1 := by
            rw [hp', hp1]; simp; omega
          rw [hpe]
          simpa using this
        · rw [hcm', hcm1, hi, hsz, he']
          have := set_app_at s.cm.toList cmI ⟨s.pos + utf8Len w, s.pos + utf8Len w, 0⟩
            ⟨s.pos + utf8Len w, s'.pos, s.cm.size + 1 + cmI.length - s.cm.size⟩
          simp only [Array.length_toList] at this
          rw [List.append_assoc, List.singleton_append, this]
          congr 2; congr 1; omega
        · rw [hp', hp1]; simp; omega
      · rename_i i key e s1 hf
        obtain ⟨hi, he, w, w0, k, w2, hr, hws, hws0, hgk, hws2, hcm1, hp1⟩ := parseFragment_span hf
        obtain ⟨tl, es, cmT, ei, ht, hT, rfl, hp', hei, hcm'⟩ := ihM _ _ _ _ _ _ _ h
          (s.cm.toList ++ [⟨s.pos + utf8Len w, s.pos + utf8Len w, 0⟩])
          ⟨s.pos + utf8Len w + 1 + utf8Len w0, s.pos + utf8Len w + 1 + utf8Len w0, 0⟩
          (s.pos + utf8Len w + 1 + utf8Len w0 + utf8Len k)
          (by rw [hcm1]; simp) (by simp [he]) (by omega)
        have hei' : ei = ⟨s.pos + utf8Len w, s.pos + utf8Len w, 0⟩ := by
          rw [hi] at hei
          simpa using hei.symm
        refine ⟨w, '{' :: ((w0 ++ k ++ w2 ++ ':' :: tl) ++ ['}']),
          ⟨s.pos + utf8Len w, s'.pos, 1 + cmT.length⟩ :: cmT, ?_, hws, ?_, ?_, ?_⟩
        · rw [hr, ht]; simp
        · have hT' : STail (s.pos + utf8Len w + 1 + utf8Len w0) (s.pos + utf8Len w + 1 + utf8Len w0 + utf8Len k)
              (s.pos + utf8Len w + 1 + utf8Len w0 + utf8Len k + utf8Len w2 + 1) tl key es cmT := by
            rw [hp1] at hT; exact hT
          have := SValue.obj (s.pos + utf8Len w) w0 k w2 tl key es cmT hws0 hgk hws2 hT'
          have hpe : s'.pos = s.pos + utf8Len w + 1 + utf8Len (w0 ++ k ++ w2 ++ ':' :: tl) + 1 := by
            rw [hp', hp1]; simp; omega
          rw [hpe]
          simpa using this
        · rw [hcm', hi, he, hei']
          have := set_app_at s.cm.toList cmT ⟨s.pos + utf8Len w, s.pos + utf8Len w, 0⟩
            ⟨s.pos + utf8Len w, s'.pos, s.cm.size + 1 + cmT.length - s.cm.size⟩
          simp only [Array.length_toList] at this
          rw [List.append_assoc, List.singleton_append, this]
          congr 2; congr 1; omega
        · rw [hp', hp1]; simp; omega
    · -- items
      intro acc i s v s' h hi
      simp only [rdItems] at h
      split at h
      · cases h
      · rename_i v1 s1 hv
        obtain ⟨w1, t1, cm1, hr1, hws1, hS1, hcm1, hp1⟩ := ihV _ _ _ _ hv
        have hsz1 : s1.cm.size = s.cm.size + cm1.length := by
          have := congrArg List.length hcm1; simpa using this
        have hil : i < s.cm.toList.length := by simpa using hi
        split at h
        · cases h
        · rename_i s2 hc
          obtain ⟨w2, hws2, hr2, hcm2, hp2⟩ := contArray_span hc
          obtain ⟨t', vs', cmI', e, ht', hI', rfl, hp', he, hcm'⟩ := ihI _ _ _ _ _ h (by rw [hcm2]; omega)
          have hee : s.cm.toList[i]? = some e := by
            rw [hcm2, hcm1, getElem?_app_left hil] at he; exact he
          refine ⟨w1 ++ t1 ++ w2 ++ ',' :: t', v1 :: vs', cm1 ++ cmI', e, ?_, ?_, by simp, ?_, hee, ?_⟩
          · rw [hr1, hr2, ht']; simp
          · refine .cons s.pos w1 t1 w2 t' v1 vs' cm1 cmI' hws1 hS1 hws2 ?_
            have : s.pos + utf8Len (w1 ++ t1 ++ w2) + 1 = s2.pos := by rw [hp2, hp1]; simp; omega
            rw [this]; exact hI'
          · rw [hp', hp2, hp1]; simp; omega
          · rw [hcm', hcm2, hcm1, hsz1]
            simp only [List.append_assoc, List.length_append]
            congr 2; congr 1; omega
        · rename_i s2 hc
          obtain ⟨w2, e, hws2, hr2, hp2, he, hcm2⟩ := contArray_span hc
          cases h
          have hee : s.cm.toList[i]? = some e := by
            rw [hcm1, getElem?_app_left hil] at he; exact he
          refine ⟨w1 ++ t1 ++ w2, [v1], cm1, e, ?_, .one s.pos w1 t1 w2 v1 cm1 hws1 hS1 hws2, rfl, ?_, hee, ?_⟩
          · rw [hr1, hr2]; simp
          · rw [hp2, hp1]; simp; omega
          · rw [hcm2, hcm1, hsz1]
    · -- members
      intro acc i key e s v s' h T ee ke hT hTl hie
      simp only [rdMembers] at h
      split at h
      · cases h
      · rename_i v1 s1 hv
        obtain ⟨w3, t1, cmv, hr1, hws3, hS1, hcm1, hp1⟩ := ihV _ _ _ _ hv
        split at h
        · cases h
        · rename_i s2 hend
          have hp := endFragment_rest hend
          obtain ⟨e0, he0, hcm2⟩ := endFragment_list hend
          have hs1l : s1.cm.toList = T ++ ee :: (⟨ee.start, ke, 1⟩ :: cmv) := by rw [hcm1, hT]; simp
          have he0' : e0 = ee := by
            rw [hs1l, ← hTl] at he0
            simpa using he0.symm
          have hsz1 : s1.cm.size = e + 2 + cmv.length := by
            have := congrArg List.length hs1l; simp at this; omega
          have hcm2' : s2.cm.toList = T ++ (⟨ee.start, s1.pos, 2 + cmv.length⟩ :: ⟨ee.start, ke, 1⟩ :: cmv) := by
            rw [hcm2, hs1l, ← hTl, set_app_at, he0', hsz1]
            congr 2; congr 1; omega
          have hiT : i < T.length := by omega
          split at h
          · cases h
          · rename_i key' e' s3 hc
            obtain ⟨he', w4, w1', k', w2', hr2, hws4, hws1', hgk', hws2', hcm3, hp3⟩ := contObject_span hc
            obtain ⟨tl', es', cmT', ei, ht', hT', rfl, hp', hei, hcm'⟩ := ihM _ _ _ _ _ _ _ h
              (T ++ (⟨ee.start, s1.pos, 2 + cmv.length⟩ :: ⟨ee.start, ke, 1⟩ :: cmv))
              ⟨s2.pos + utf8Len w4 + 1 + utf8Len w1', s2.pos + utf8Len w4 + 1 + utf8Len w1', 0⟩
              (s2.pos + utf8Len w4 + 1 + utf8Len w1' + utf8Len k')
              (by rw [hcm3, hcm2']) (by rw [he', ← Array.length_toList, hcm2']) (by rw [he', ← Array.length_toList, hcm2']; simp; omega)
            have hei' : T[i]? = some ei := by rw [getElem?_app_left hiT] at hei; exact hei
            refine ⟨w3 ++ t1 ++ w4 ++ ',' :: (w1' ++ k' ++ w2' ++ ':' :: tl'), (key, v1) :: es',
              ⟨ee.start, s.pos + utf8Len w3 + utf8Len t1, 2 + cmv.length⟩ :: ⟨ee.start, ke, 1⟩ :: (cmv ++ cmT'), ei, ?_, ?_, by simp, ?_, hei', ?_⟩
            · rw [hr1, ← hp.1, hr2, ht']; simp
            · refine .cons ee.start ke s.pos w3 t1 w4 w1' k' w2' tl' key key' v1 es' cmv cmT' hws3 hS1 hws4 hws1' hgk' hws2' ?_
              have e1 : s.pos + utf8Len (w3 ++ t1 ++ w4) + 1 + utf8Len w1' = s2.pos + utf8Len w4 + 1 + utf8Len w1' := by
                rw [hp.2.1, hp1]; simp; omega
              rw [e1, ← hp3]; exact hT'
            · rw [hp', hp3, hp.2.1, hp1]; simp; omega
            · rw [hcm', he', ← Array.length_toList, hcm2', hp1]
              simp only [List.append_assoc, List.length_append, List.cons_append, List.length_cons]
              congr 2; congr 1; omega
          · rename_i s3 hc
            obtain ⟨w4, ei, hws4, hr2, hp3, hei, hcm3⟩ := contObject_span hc
            cases h
            have hei' : T[i]? = some ei := by rw [hcm2', getElem?_app_left hiT] at hei; exact hei
            refine ⟨w3 ++ t1 ++ w4, [(key, v1)],
              [⟨ee.start, s.pos + utf8Len w3 + utf8Len t1, 2 + cmv.length⟩, ⟨ee.start, ke, 1⟩] ++ cmv, ei, ?_, ?_, rfl, ?_, hei', ?_⟩
            · rw [hr1, ← hp.1, hr2]; simp
            · exact .one ee.start ke s.pos w3 t1 w4 key v1 cmv hws3 hS1 hws4
            · rw [hp3, hp.2.1, hp1]; simp; omega
            · rw [hcm3, hcm2', hp1, ← Array.length_toList, hcm2']
              simp only [List.length_append, List.length_cons, List.cons_append, List.nil_append]
              congr 2; congr 1; omega

end JsonVerif

namespace JsonVerif

theorem rdDocument_span {n : Nat} {s : PS} {v : JValue} {s' : PS}
    (h : rdDocument so n s = .ok (v, s')) (hp : s.pos = 0) (hc : s.cm = #[]) : SDoc s.rest v s'.cm.toList := by
  unfold rdDocument at h
  split at h
  · cases h
  · rename_i v1 s1 hv
    obtain ⟨w, t, cm, hr, hws, hS, hcm, _⟩ := (rd_span n).1 _ _ _ _ hv
    split at h
    · cases h
    · rename_i s2 h2
      obtain ⟨w2, hr2, hws2, _, hc2⟩ := skipWs_span h2
      split at h
      · cases h
      · rename_i hnil
        cases h
        refine ⟨w, t, w2, by rw [hr, hr2, hnil]; simp, hws, ?_, hws2⟩
        rw [hc2, hcm, hc]
        simpa [hp] using hS

/-- **C05, full**: the code map returned with a successfully parsed document is the code map the
    grammar induces on that text. -/
theorem parse_codemap {cs : List Char} {v : JValue} {cm : List CMEntry}
    (h : parseChars so cs false = .ok (v, cm)) : SDoc cs v cm := by
  unfold parseChars at h
  split at h
  · cases h
  · rename_i v' s' hr
    cases h
    rw [machine_eq_rd] at hr
    exact rdDocument_span hr rfl rfl

/-! ## What the specification implies: the text is a JSON text; volumes are subtree sizes -/

mutual
theorem SValue.erase : ∀ {b t v cm}, SValue b t v cm → GValue t v
  | _, _, _, _, .null _ => .null
  | _, _, _, _, .true _ => .true
  | _, _, _, _, .false _ => .false
  | _, _, _, _, .number _ n hn => .number n hn
  | _, _, _, _, .string _ t cs hs => .string t cs hs
  | _, _, _, _, .arrEmpty _ w hw => .arrEmpty w hw
  | _, _, _, _, .arr _ t vs cm hi => .arr t vs (SItems.erase hi)
  | _, _, _, _, .objEmpty _ w hw => .objEmpty w hw
  | _, _, _, _, .obj _ w1 k w2 tl key es cm h1 hk h2 ht => .obj _ es (STail.erase ht w1 k w2 h1 hk h2)
theorem SItems.erase : ∀ {b t vs cm}, SItems b t vs cm → GItems t vs
  | _, _, _, _, .one _ w1 t w2 v cm h1 hv h2 => .one w1 t w2 v h1 (SValue.erase hv) h2
  | _, _, _, _, .cons _ w1 t w2 ts v vs cm1 cm2 h1 hv h2 hts =>
    .cons w1 t w2 ts v vs h1 (SValue.erase hv) h2 (SItems.erase hts)
theorem STail.erase : ∀ {kb ke b tl key es cm}, STail kb ke b tl key es cm →
    ∀ w1 k w2, IsWsL w1 → GString k key → IsWsL w2 → GMembers (w1 ++ k ++ w2 ++ ':' :: tl) es
  | _, _, _, _, _, _, _, .one _ _ _ w3 t w4 key v cmv h3 hv h4, w1, k, w2, h1, hk, h2 =>
    .one w1 k w2 w3 t w4 key v h1 hk h2 h3 (SValue.erase hv) h4
  | _, _, _, _, _, _, _, .cons _ _ _ w3 t w4 w1' k' w2' ts key key' v es cmv cm' h3 hv h4 h1' hk' h2' hts, w1, k, w2, h1, hk, h2 =>
    .cons w1 k w2 w3 t w4 _ key v es h1 hk h2 h3 (SValue.erase hv) h4 (STail.erase hts w1' k' w2' h1' hk' h2')
end

theorem SDoc.gdoc {cs : List Char} {v : JValue} {cm : List CMEntry} (h : SDoc cs v cm) : GDoc cs v := by
  obtain ⟨w1, t, w2, e, h1, hs, h2⟩ := h
  exact ⟨w1, t, w2, e, h1, hs.erase, h2⟩

end JsonVerif

namespace JsonVerif

mutual
theorem SValue.vols : ∀ {b t v cm}, SValue b t v cm → volumes cm = volsV v
  | _, _, _, _, .null _ => rfl
  | _, _, _, _, .true _ => rfl
  | _, _, _, _, .false _ => rfl
  | _, _, _, _, .number _ n hn => rfl
  | _, _, _, _, .string _ t cs hs => rfl
  | _, _, _, _, .arrEmpty _ w hw => rfl
  | _, _, _, _, .arr _ t vs cm hi => by
    have ih := SItems.vols hi
    have hl : cm.length = JValue.fragsL vs := by
      rw [← volsL_length vs, ← ih]; simp [volumes]
    simp only [volumes, List.map_cons, volsV] at ih ⊢
    rw [ih, hl]
  | _, _, _, _, .objEmpty _ w hw => rfl
  | _, _, _, _, .obj _ w1 k w2 tl key es cm h1 hk h2 ht => by
    have ih := STail.vols ht
    have hl : cm.length = JValue.fragsM es := by
      rw [← volsM_length es, ← ih]; simp [volumes]
    simp only [volumes, List.map_cons, volsV] at ih ⊢
    rw [ih, hl]
theorem SItems.vols : ∀ {b t vs cm}, SItems b t vs cm → volumes cm = volsL vs
  | _, _, _, _, .one _ w1 t w2 v cm h1 hv h2 => by
    simp [volsL, SValue.vols hv]
  | _, _, _, _, .cons _ w1 t w2 ts v vs cm1 cm2 h1 hv h2 hts => by
    have a := SValue.vols hv
    have b := SItems.vols hts
    simp only [volumes, List.map_append, volsL] at a b ⊢
    rw [a, b]
theorem STail.vols : ∀ {kb ke b tl key es cm}, STail kb ke b tl key es cm → volumes cm = volsM es
  | _, _, _, _, _, _, _, .one _ _ _ w3 t w4 key v cmv h3 hv h4 => by
    have a := SValue.vols hv
    have hl : cmv.length = v.frags := by rw [← volsV_length v, ← a]; simp [volumes]
    simp only [volumes, List.map_cons, volsM, List.append_nil] at a ⊢
    rw [a, hl]
  | _, _, _, _, _, _, _, .cons _ _ _ w3 t w4 w1' k' w2' ts key key' v es cmv cm' h3 hv h4 h1' hk' h2' hts => by
    have a := SValue.vols hv
    have b := STail.vols hts
    have hl : cmv.length = v.frags := by rw [← volsV_length v, ← a]; simp [volumes]
    simp only [volumes, List.map_cons, List.map_append, volsM] at a b ⊢
    rw [a, b, hl]; simp
end

/-- the volume column of a parsed document's code map is the pre-order list of subtree sizes —
    exactly the hypothesis under which the navigation theorems of C11 are stated -/
theorem parse_volumes {cs : List Char} {v : JValue} {cm : List CMEntry}
    (h : parseChars so cs false = .ok (v, cm)) : volumes cm = volsV v := by
  obtain ⟨w1, t, w2, _, _, hs, _⟩ := parse_codemap h
  exact hs.vols

end JsonVerif
