import JsonVerif.Model.TryFrom
import JsonVerif.Lemmas.Mapped
/-!
# The typed conversions report a kind mismatch at the pre-order index of the offending fragment (C11)

`convSpec τ v off` is the specification: walk `v` along `τ` in pre-order, numbering fragments from
`off` by fragment counts alone (no code map); the first value whose kind does not fit is reported
with its number. `tryFrom_eq`: on a well-formed code map the real conversion (which finds its way
through the code map's volumes) never panics and returns exactly that.
-/
namespace JsonVerif

def convSpecL (f : JValue → Nat → Except Nat Unit) : List JValue → Nat → Except Nat Unit
  | [], _ => .ok ()
  | x :: xs, o =>
    match f x o with
    | .ok () => convSpecL f xs (o + x.frags)
    | .error e => .error e

def convSpecM (f : JValue → Nat → Except Nat Unit) : List (Key × JValue) → Nat → Except Nat Unit
  | [], _ => .ok ()
  | (_, x) :: es, o =>
    match f x (o + 2) with
    | .ok () => convSpecM f es (o + 2 + x.frags)
    | .error e => .error e

def convSpec : CTy → JValue → Nat → Except Nat Unit
  | .bool, v, off => if leafOk .bool v then .ok () else .error off
  | .str, v, off => if leafOk .str v then .ok () else .error off
  | .unit, v, off => if leafOk .unit v then .ok () else .error off
  | .u8, v, off => if leafOk .u8 v then .ok () else .error off
  | .opt t, v, off => (match v with | .null => .ok () | _ => convSpec t v off)
  | .box t, v, off => convSpec t v off
  | .vec t, v, off => (match v with | .array xs => convSpecL (convSpec t) xs (off + 1) | _ => .error off)
  | .map t, v, off => (match v with | .object es => convSpecM (convSpec t) es (off + 1) | _ => .error off)

theorem convItems_array (cm : List CMEntry) (f : JValue → Nat → Option (Except Nat Unit))
    (g : JValue → Nat → Except Nat Unit)
    (hfg : ∀ x pre post, volumes cm = pre ++ volsV x ++ post → f x pre.length = some (g x pre.length)) :
    ∀ (xs : List JValue) (pre post : List Nat), volumes cm = pre ++ volsL xs ++ post →
      convItems f (xs.zip (offsetsL pre.length xs)) = some (convSpecL g xs pre.length)
  | [], _, _, _ => rfl
  | x :: xs, pre, post, h => by
    have hx := hfg x pre (volsL xs ++ post) (by rw [h]; simp [volsL])
    simp only [offsetsL, List.zip_cons_cons, convItems, convSpecL, hx]
    have hlen : (pre ++ volsV x).length = pre.length + x.frags := by simp [volsV_length]
    have ih := convItems_array cm f g hfg xs (pre ++ volsV x) post (by rw [h]; simp [volsL])
    rw [hlen] at ih
    cases hg : g x pre.length with
    | error e => rfl
    | ok u => cases u; simpa using ih

theorem convItems_object (cm : List CMEntry) (f : JValue → Nat → Option (Except Nat Unit))
    (g : JValue → Nat → Except Nat Unit)
    (hfg : ∀ x pre post, volumes cm = pre ++ volsV x ++ post → f x pre.length = some (g x pre.length)) :
    ∀ (es : List (Key × JValue)) (pre post : List Nat), volumes cm = pre ++ volsM es ++ post →
      convItems f ((es.map (·.2)).zip ((offsetsM pre.length es).map (·.2.2))) = some (convSpecM g es pre.length)
  | [], _, _, _ => rfl
  | (k, x) :: es, pre, post, h => by
    have hx := hfg x (pre ++ [2 + x.frags, 1]) (volsM es ++ post) (by rw [h]; simp [volsM])
    have hl2 : (pre ++ [2 + x.frags, 1]).length = pre.length + 2 := by simp
    rw [hl2] at hx
    simp only [offsetsM, List.map_cons, List.zip_cons_cons, convItems, convSpecM, hx]
    have hlen : (pre ++ ((2 + x.frags) :: 1 :: volsV x)).length = pre.length + 2 + x.frags := by
      simp [volsV_length]; omega
    have ih := convItems_object cm f g hfg es (pre ++ ((2 + x.frags) :: 1 :: volsV x)) post
      (by rw [h]; simp [volsM])
    rw [hlen] at ih
    cases hg : g x (pre.length + 2) with
    | error e => rfl
    | ok u => cases u; simpa using ih

/-- **Conversions on a well-formed code map** never panic and equal the fragment-counting
    specification. -/
theorem tryFrom_eq (cm : List CMEntry) : ∀ (t : CTy) (v : JValue) (pre post : List Nat),
    volumes cm = pre ++ volsV v ++ post → tryFrom cm t v pre.length = some (convSpec t v pre.length)
  | .bool, _, _, _, _ => rfl
  | .str, _, _, _, _ => rfl
  | .unit, _, _, _, _ => rfl
  | .u8, _, _, _, _ => rfl
  | .opt t, v, pre, post, h => by
    cases v <;> simp only [tryFrom, convSpec] <;> exact tryFrom_eq cm t _ pre post h
  | .box t, v, pre, post, h => by
    simp only [tryFrom, convSpec]; exact tryFrom_eq cm t v pre post h
  | .vec t, v, pre, post, h => by
    cases v with
    | array xs =>
      simp only [tryFrom, convSpec]
      rw [arrayMapped_eq cm xs pre post h]
      have := convItems_array cm (tryFrom cm t) (convSpec t) (tryFrom_eq cm t) xs
        (pre ++ [1 + JValue.fragsL xs]) post (by rw [h]; simp [volsV])
      simpa using this
    | _ => rfl
  | .map t, v, pre, post, h => by
    cases v with
    | object es =>
      simp only [tryFrom, convSpec]
      rw [objectMapped_eq cm es pre post h]
      have := convItems_object cm (tryFrom cm t) (convSpec t) (tryFrom_eq cm t) es
        (pre ++ [1 + JValue.fragsM es]) post (by rw [h]; simp [volsV])
      simpa using this
    | _ => rfl

end JsonVerif

namespace JsonVerif

/-- what a conversion to `τ` accepts at the root of a value -/
def headOk : CTy → JValue → Bool
  | .opt _, .null => true
  | .opt t, v => headOk t v
  | .box t, v => headOk t v
  | .vec _, .array _ => true
  | .map _, .object _ => true
  | .vec _, _ => false
  | .map _, _ => false
  | t, v => leafOk t v

/-- the reported offset is the pre-order number of a VALUE fragment that a sub-conversion rejects -/
def BadAt (v : JValue) (off e : Nat) : Prop :=
  ∃ i w t', e = off + i ∧ (preV v)[i]? = some (.value w) ∧ headOk t' w = false

theorem preV_head (v : JValue) : (preV v)[0]? = some (.value v) := by
  cases v <;> simp [preV]

theorem convSpecL_bad (g : JValue → Nat → Except Nat Unit)
    (hg : ∀ x o e, g x o = .error e → BadAt x o e) :
    ∀ (xs : List JValue) (o e : Nat), convSpecL g xs o = .error e →
      ∃ i w t', e = o + i ∧ (poL xs)[i]? = some (.value w) ∧ headOk t' w = false
  | [], _, _, h => by simp [convSpecL] at h
  | x :: xs, o, e, h => by
    simp only [convSpecL] at h
    split at h
    · obtain ⟨i, w, t', he, hi, hb⟩ := convSpecL_bad g hg xs _ e h
      refine ⟨x.frags + i, w, t', by omega, ?_, hb⟩
      simp only [poL]
      rw [List.getElem?_append_right (by rw [preV_length]; omega), preV_length]
      simpa using hi
    · rename_i e' hx
      cases h
      obtain ⟨i, w, t', he, hi, hb⟩ := hg x o e hx
      refine ⟨i, w, t', he, ?_, hb⟩
      simp only [poL]
      have hlt : i < (preV x).length := by
        rcases Nat.lt_or_ge i (preV x).length with h | h
        · exact h
        · rw [List.getElem?_eq_none h] at hi; cases hi
      rw [List.getElem?_append_left hlt]; exact hi

theorem convSpecM_bad (g : JValue → Nat → Except Nat Unit)
    (hg : ∀ x o e, g x o = .error e → BadAt x o e) :
    ∀ (es : List (Key × JValue)) (o e : Nat), convSpecM g es o = .error e →
      ∃ i w t', e = o + i ∧ (poM es)[i]? = some (.value w) ∧ headOk t' w = false
  | [], _, _, h => by simp [convSpecM] at h
  | (k, x) :: es, o, e, h => by
    simp only [convSpecM] at h
    split at h
    · obtain ⟨i, w, t', he, hi, hb⟩ := convSpecM_bad g hg es _ e h
      refine ⟨2 + x.frags + i, w, t', by omega, ?_, hb⟩
      simp only [poM]
      rw [List.getElem?_append_right (by simp [preV_length]; omega)]
      simp only [List.length_cons, preV_length]
      have : 2 + x.frags + i - (x.frags + 1 + 1) = i := by omega
      rw [this]; exact hi
    · rename_i e' hx
      cases h
      obtain ⟨i, w, t', he, hi, hb⟩ := hg x (o + 2) e hx
      refine ⟨2 + i, w, t', by omega, ?_, hb⟩
      simp only [poM]
      have hlt : i < (preV x).length := by
        rcases Nat.lt_or_ge i (preV x).length with h | h
        · exact h
        · rw [List.getElem?_eq_none h] at hi; cases hi
      rw [List.getElem?_append_left (by simp; omega)]
      have : 2 + i = i + 1 + 1 := by omega
      rw [this]
      simp only [List.getElem?_cons_succ]
      exact hi

/-- **A failed conversion points at the offending fragment**: the reported offset is `off` plus the
    pre-order index, inside the converted value, of a value fragment that the sub-conversion
    reaching it rejects at its root. -/
theorem convSpec_bad : ∀ (t : CTy) (v : JValue) (off e : Nat), convSpec t v off = .error e → BadAt v off e
  | .bool, v, off, e, h => by
    simp only [convSpec] at h; split at h
    · cases h
    · rename_i hb; cases h; exact ⟨0, v, .bool, rfl, preV_head v, by simpa [headOk] using hb⟩
  | .str, v, off, e, h => by
    simp only [convSpec] at h; split at h
    · cases h
    · rename_i hb; cases h; exact ⟨0, v, .str, rfl, preV_head v, by simpa [headOk] using hb⟩
  | .unit, v, off, e, h => by
    simp only [convSpec] at h; split at h
    · cases h
    · rename_i hb; cases h; exact ⟨0, v, .unit, rfl, preV_head v, by simpa [headOk] using hb⟩
  | .u8, v, off, e, h => by
    simp only [convSpec] at h; split at h
    · cases h
    · rename_i hb; cases h; exact ⟨0, v, .u8, rfl, preV_head v, by simpa [headOk] using hb⟩
  | .opt t, v, off, e, h => by
    cases v <;> simp only [convSpec] at h
    · cases h
    all_goals exact convSpec_bad t _ off e h
  | .box t, v, off, e, h => by
    simp only [convSpec] at h; exact convSpec_bad t v off e h
  | .vec t, v, off, e, h => by
    cases v with
    | array xs =>
      simp only [convSpec] at h
      obtain ⟨i, w, t', he, hi, hb⟩ := convSpecL_bad (convSpec t) (convSpec_bad t) xs _ e h
      exact ⟨1 + i, w, t', by omega, by simpa [preV, Nat.add_comm] using hi, hb⟩
    | _ => simp only [convSpec] at h; cases h; exact ⟨0, _, .vec t, rfl, preV_head _, rfl⟩
  | .map t, v, off, e, h => by
    cases v with
    | object es =>
      simp only [convSpec] at h
      obtain ⟨i, w, t', he, hi, hb⟩ := convSpecM_bad (convSpec t) (convSpec_bad t) es _ e h
      exact ⟨1 + i, w, t', by omega, by simpa [preV, Nat.add_comm] using hi, hb⟩
    | _ => simp only [convSpec] at h; cases h; exact ⟨0, _, .map t, rfl, preV_head _, rfl⟩

end JsonVerif
