import JsonVerif.Lemmas.DeNum
import JsonVerif.Lemmas.Serde
/-!
# `from_value::<Value>`: the value comes back, numbers re-spelled by json-number
-/
namespace JsonVerif

mutual
/-- the value with every number passed through json-number's visitor round trip -/
def backValue (ft : List Char → Option (List Char)) : JValue → JValue
  | .number n => numBack ft n
  | .array xs => .array (backValueL ft xs)
  | .object es => .object (backValueM ft es)
  | .null => .null
  | .bool b => .bool b
  | .string s => .string s
def backValueL (ft : List Char → Option (List Char)) : List JValue → List JValue
  | [] => []
  | x :: xs => backValue ft x :: backValueL ft xs
def backValueM (ft : List Char → Option (List Char)) : List (List Char × JValue) → List (List Char × JValue)
  | [] => []
  | (k, x) :: es => (k, backValue ft x) :: backValueM ft es
end

mutual
/-- no object has duplicate keys, and none starts with the private number token -/
def DePlain : JValue → Prop
  | .array xs => DePlainL xs
  | .object es => DePlainM es ∧ (es.map (·.1)).Nodup ∧ (es.map (·.1)).head? ≠ some numberToken
  | _ => True
def DePlainL : List JValue → Prop
  | [] => True
  | x :: xs => DePlain x ∧ DePlainL xs
def DePlainM : List (List Char × JValue) → Prop
  | [] => True
  | (_, x) :: es => DePlain x ∧ DePlainM es
end

theorem backValueM_keys (ft : List Char → Option (List Char)) : ∀ (es : List (List Char × JValue)),
    (backValueM ft es).map (·.1) = es.map (·.1)
  | [] => rfl
  | (k, x) :: es => by simp [backValueM, backValueM_keys ft es]

mutual
theorem fromValue_plain (ft : List Char → Option (List Char)) : ∀ (v : JValue), DePlain v →
    fromValue ft v = .ok (backValue ft v)
  | .null, _ => rfl
  | .bool _, _ => rfl
  | .number _, _ => rfl
  | .string _, _ => rfl
  | .array xs, h => by simp [fromValue, fromValueL_plain ft xs h, backValue]
  | .object [], _ => rfl
  | .object ((k, x) :: es), h => by
    obtain ⟨⟨hx, hes⟩, hnd, hk⟩ := h
    have hk' : (k == numberToken) = false := by simpa using hk
    have hnd' : (([(k, backValue ft x)] : List (List Char × JValue)).map (·.1) ++ es.map (·.1)).Nodup := by
      simpa using hnd
    simp only [fromValue, hk', Bool.false_eq_true, ↓reduceIte, fromValue_plain ft x hx]
    rw [fromValueM_plain ft es [(k, backValue ft x)] hes hnd']
    simp [backValue, backValueM]
theorem fromValueL_plain (ft : List Char → Option (List Char)) : ∀ (xs : List JValue), DePlainL xs →
    fromValueL ft xs = .ok (backValueL ft xs)
  | [], _ => rfl
  | x :: xs, h => by simp [fromValueL, fromValue_plain ft x h.1, fromValueL_plain ft xs h.2, backValueL]
theorem fromValueM_plain (ft : List Char → Option (List Char)) :
    ∀ (es acc : List (List Char × JValue)), DePlainM es → (acc.map (·.1) ++ es.map (·.1)).Nodup →
    fromValueM ft es acc = .ok (.object (acc ++ backValueM ft es))
  | [], acc, _, _ => by simp [fromValueM, backValueM]
  | (k, x) :: es, acc, h, hnd => by
    have hfresh : k ∉ acc.map (·.1) := by
      have := (List.nodup_append.mp hnd).2.2
      intro hk'; exact this k hk' k (by simp) rfl
    simp only [fromValueM, fromValue_plain ft x h.1, listInsert_fresh acc k _ hfresh]
    rw [fromValueM_plain ft es (acc ++ [(k, backValue ft x)]) h.2 (by simpa using hnd)]
    simp [backValueM]
end

/-- a number that json-number reads as an unsigned 64-bit integer comes back as the decimal text of
    the same integer; likewise for the signed ones -/
theorem numBack_u64 (ft : List Char → Option (List Char)) (n : List Char) (u : Nat)
    (h : asU64 n = some u) : ∃ t, numBack ft n = .number t ∧ asU64 t = some u := by
  have hu : u < 2 ^ 64 := by
    unfold asU64 at h
    split at h
    · split at h
      · rename_i hlt; cases h; exact hlt
      · cases h
    · cases h
  exact ⟨natText u, by simp [numBack, numEvent, h], asU64_natText u hu⟩

theorem numBack_i64 (ft : List Char → Option (List Char)) (n : List Char) (i : Int)
    (h0 : asU64 n = none) (h : asI64 n = some i) : ∃ t, numBack ft n = .number t ∧ asI64 t = some i := by
  have hi : -(2 ^ 63 : Int) ≤ i ∧ i < 2 ^ 63 := by
    unfold asI64 at h
    split at h
    · split at h
      · rename_i hlt; cases h; exact hlt
      · cases h
    · cases h
  refine ⟨intText i, by simp [numBack, numEvent, h0, h], ?_⟩
  cases i with
  | ofNat m => rw [intText_ofNat]; exact asI64_natText m hi.2
  | negSucc m => exact asI64_neg m hi.1

/-- every other number goes through the double: what comes back is lexical's text for that double,
    or `null` when the double is not finite -/
theorem numBack_f64 (ft : List Char → Option (List Char)) (n : List Char)
    (h0 : asU64 n = none) (h1 : asI64 n = none) :
    (∀ t, ft n = some t → numBack ft n = .number t) ∧ (ft n = none → numBack ft n = .null) := by
  constructor
  · intro t ht; simp [numBack, numEvent, h0, h1, ht]
  · intro ht; simp [numBack, numEvent, h0, h1, ht]

/-! ## Composition: serialize a value with the crate's serializer, deserialize the result -/

theorem mapNumbersM_keys (f : List Char → List Char) : ∀ (es : List (List Char × JValue)),
    (mapNumbersM f es).map (·.1) = es.map (·.1)
  | [] => rfl
  | (k, x) :: es => by simp [mapNumbersM, mapNumbersM_keys f es]

mutual
theorem dePlain_mapNumbers (f : List Char → List Char) : ∀ (v : JValue), Plain v → DePlain (mapNumbers f v)
  | .null, _ => trivial
  | .bool _, _ => trivial
  | .number _, _ => trivial
  | .string _, _ => trivial
  | .array xs, h => by simpa [mapNumbers, DePlain] using dePlainL_mapNumbers f xs h
  | .object es, h => by
    obtain ⟨h1, h2, h3⟩ := h
    refine ⟨dePlainM_mapNumbers f es h1, by rw [mapNumbersM_keys]; exact h2, ?_⟩
    rw [mapNumbersM_keys]
    intro hh
    apply h3
    cases hes : es.map (·.1) with
    | nil => rw [hes] at hh; simp at hh
    | cons k ks => rw [hes] at hh; simp at hh; simp [hh]
theorem dePlainL_mapNumbers (f : List Char → List Char) : ∀ (xs : List JValue), PlainL xs →
    DePlainL (mapNumbersL f xs)
  | [], _ => trivial
  | x :: xs, h => ⟨dePlain_mapNumbers f x h.1, dePlainL_mapNumbers f xs h.2⟩
theorem dePlainM_mapNumbers (f : List Char → List Char) : ∀ (es : List (List Char × JValue)), PlainM es →
    DePlainM (mapNumbersM f es)
  | [], _ => trivial
  | (_, x) :: es, h => ⟨dePlain_mapNumbers f x h.1, dePlainM_mapNumbers f es h.2⟩
end

/-- `from_value::<Value>(to_value(&v))` for a plain value -/
theorem fromValue_toValue (ft : List Char → Option (List Char)) (v : JValue) (h : Plain v) :
    ∃ w, toValue v = .ok w ∧ fromValue ft w = .ok (backValue ft (mapNumbers numNorm v)) :=
  ⟨_, toValue_plain v h, fromValue_plain ft _ (dePlain_mapNumbers numNorm v h)⟩

theorem fromValueObject_plain (ft : List Char → Option (List Char)) (es : List (List Char × JValue))
    (h : DePlainM es) (hnd : (es.map (·.1)).Nodup) :
    fromValueObject ft (.object es) = .ok (.object (backValueM ft es)) := by
  have := fromValueM_plain ft es [] h (by simpa using hnd)
  simpa [fromValueObject] using this

end JsonVerif
