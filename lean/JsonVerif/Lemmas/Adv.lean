import JsonVerif.Model.Machine
/-!
# Frame lemmas of the lexical layer

`Adv s s'`: going from parser state `s` to `s'` consumed a prefix `w` of the input, advanced the
byte position by exactly the UTF-8 length of `w`, and did not touch the stream-error flag.
Every lexical function that succeeds satisfies it. This is the invariant
`position = utf8Len (consumed input)` that C05 and C07 rest on.
-/
namespace JsonVerif

def utf8Len : List Char → Nat
  | [] => 0
  | c :: r => c.utf8Size + utf8Len r

@[simp] theorem utf8Len_nil : utf8Len [] = 0 := rfl
@[simp] theorem utf8Len_cons (c : Char) (r : List Char) : utf8Len (c :: r) = c.utf8Size + utf8Len r := rfl
@[simp] theorem utf8Len_append (a b : List Char) : utf8Len (a ++ b) = utf8Len a + utf8Len b := by
  induction a with
  | nil => simp
  | cons c r ih => simp [ih]; omega

/-- raw form, on (input, position) pairs -/
def AdvL (l : List Char) (pos : Nat) (l' : List Char) (pos' : Nat) : Prop :=
  ∃ w, l = w ++ l' ∧ pos' = pos + utf8Len w

def Adv (s s' : PS) : Prop :=
  AdvL s.rest s.pos s'.rest s'.pos ∧ s'.bad = s.bad ∧ s.cm.size ≤ s'.cm.size

theorem AdvL.refl (l : List Char) (p : Nat) : AdvL l p l p := ⟨[], by simp, by simp⟩

theorem AdvL.trans {l1 p1 l2 p2 l3 p3} (h1 : AdvL l1 p1 l2 p2) (h2 : AdvL l2 p2 l3 p3) :
    AdvL l1 p1 l3 p3 := by
  obtain ⟨w1, e1, q1⟩ := h1
  obtain ⟨w2, e2, q2⟩ := h2
  exact ⟨w1 ++ w2, by simp [e1, e2], by simp [q1, q2]; omega⟩

theorem AdvL.cons (c : Char) (r : List Char) (p : Nat) : AdvL (c :: r) p r (p + c.utf8Size) :=
  ⟨[c], by simp, by simp⟩

theorem Adv.refl (s : PS) : Adv s s := ⟨AdvL.refl _ _, rfl, Nat.le_refl _⟩
theorem Adv.trans {a b c : PS} (h1 : Adv a b) (h2 : Adv b c) : Adv a c :=
  ⟨h1.1.trans h2.1, by rw [h2.2.1, h1.2.1], Nat.le_trans h1.2.2 h2.2.2⟩

theorem Adv.len {s s' : PS} (h : Adv s s') : s'.rest.length ≤ s.rest.length := by
  obtain ⟨⟨w, e, _⟩, _, _⟩ := h; rw [e]; simp

theorem adv_adv {s : PS} {c : Char} {r : List Char} (h : s.rest = c :: r) : Adv s (s.adv c r) :=
  ⟨by rw [h]; exact AdvL.cons c r s.pos, rfl, Nat.le_refl _⟩

theorem adv_begin (s : PS) : Adv s s.reserve :=
  ⟨AdvL.refl _ _, rfl, by simp [PS.reserve]⟩

theorem adv_end {s : PS} {i : Nat} {s' : PS} (h : s.endFragment i = .ok s') : Adv s s' := by
  obtain ⟨h1, h2, h3⟩ := endFragment_rest h
  refine ⟨by rw [h1, h2]; exact AdvL.refl _ _, h3, ?_⟩
  unfold PS.endFragment at h
  split at h
  · cases h; simp
  · cases h

theorem skipWsL_adv (l : List Char) (p : Nat) : AdvL l p (skipWsL l p).1 (skipWsL l p).2 := by
  induction l generalizing p with
  | nil => simp [skipWsL]; exact AdvL.refl _ _
  | cons c r ih =>
    simp only [skipWsL]
    split
    · exact (AdvL.cons c r p).trans (ih _)
    · exact AdvL.refl _ _

theorem skipWs_adv {s s' : PS} (h : skipWs s = .ok s') : Adv s s' := by
  unfold skipWs at h
  simp only at h
  split at h
  · cases h
  · cases h; exact ⟨skipWsL_adv _ _, rfl, Nat.le_refl _⟩

theorem expectChar_adv {c : Char} {s s' : PS} (h : expectChar c s = .ok s') : Adv s s' := by
  unfold expectChar at h
  split at h
  · cases h
  · rename_i d r hr
    split at h
    · cases h; exact adv_adv hr
    · cases h

theorem expectChars_adv {cs : List Char} {s s' : PS} (h : expectChars cs s = .ok s') : Adv s s' := by
  induction cs generalizing s with
  | nil => simp [expectChars] at h; subst h; exact Adv.refl _
  | cons c cs ih =>
    simp only [expectChars] at h
    split at h
    · cases h
    · rename_i s1 h1
      exact (expectChar_adv h1).trans (ih h)

theorem lexNull_adv {s s' : PS} (h : lexNull s = .ok s') : Adv s s' := by
  unfold lexNull at h
  simp only [PS.beginFragment_fst, PS.beginFragment_snd] at h
  split at h
  · cases h
  · rename_i s1 h1
    exact (adv_begin s).trans ((expectChars_adv h1).trans (adv_end h))

theorem lexBool_adv {s : PS} {b : Bool} {s' : PS} (h : lexBool s = .ok (b, s')) : Adv s s' := by
  unfold lexBool at h
  simp only [PS.beginFragment_fst, PS.beginFragment_snd] at h
  split at h
  · cases h
  · split at h
    · split at h
      · cases h
      · rename_i s1 h1
        split at h
        · cases h
        · rename_i s2 h2
          cases h
          exact (adv_begin s).trans ((expectChars_adv h1).trans (adv_end h2))
    · split at h
      · split at h
        · cases h
        · rename_i s1 h1
          split at h
          · cases h
          · rename_i s2 h2
            cases h
            exact (adv_begin s).trans ((expectChars_adv h1).trans (adv_end h2))
      · cases h

theorem numLoop_adv {ctx : Ctx} {st : NumState} {buf l : List Char} {pos : Nat}
    {st' : NumState} {buf' r : List Char} {pos' : Nat}
    (h : numLoop ctx st buf l pos = .ok (st', buf', r, pos')) :
    ∃ w, l = w ++ r ∧ pos' = pos + utf8Len w ∧ buf' = buf ++ w := by
  induction l generalizing st buf pos with
  | nil => simp [numLoop] at h; obtain ⟨_, rfl, rfl, rfl⟩ := h; exact ⟨[], by simp⟩
  | cons c r0 ih =>
    simp only [numLoop] at h
    split at h
    · obtain ⟨w, e, q, b⟩ := ih h
      exact ⟨c :: w, by simp [e], by simp [q]; omega, by simp [b]⟩
    · cases h; exact ⟨[], by simp⟩
    · cases h

theorem lexNumber_adv {ctx : Ctx} {s : PS} {n : List Char} {s' : PS}
    (h : lexNumber ctx s = .ok (n, s')) : Adv s s' := by
  unfold lexNumber at h
  simp only [PS.beginFragment_fst, PS.beginFragment_snd] at h
  split at h
  · cases h
  · rename_i st buf r pos hv
    split at h
    · cases h
    · split at h
      · split at h
        · cases h
        · rename_i s2 h2
          cases h
          obtain ⟨w, e, q, _⟩ := numLoop_adv hv
          refine (Adv.trans ?_ (adv_end h2))
          exact ⟨⟨w, by simpa using e, by simpa using q⟩, rfl, by simp [PS.reserve]⟩
      · cases h

theorem hexDigitAt_adv {bad : Bool} {l : List Char} {pos h : Nat} {r : List Char} {p : Nat}
    (hh : hexDigitAt bad l pos = .ok (h, r, p)) : AdvL l pos r p := by
  unfold hexDigitAt at hh
  split at hh
  · cases hh
  · split at hh
    · cases hh; exact AdvL.cons _ _ _
    · cases hh

theorem hex4_adv {bad : Bool} {l : List Char} {pos cp : Nat} {r : List Char} {p : Nat}
    (h : hex4 bad l pos = .ok (cp, r, p)) : AdvL l pos r p := by
  unfold hex4 at h
  split at h
  · cases h
  · rename_i e1
    split at h
    · cases h
    · rename_i e2
      split at h
      · cases h
      · rename_i e3
        split at h
        · cases h
        · rename_i e4
          cases h
          exact (hexDigitAt_adv e1).trans ((hexDigitAt_adv e2).trans ((hexDigitAt_adv e3).trans (hexDigitAt_adv e4)))

theorem noHigh_adv {o : ParseOptions} {acc : List Char} {pe cp : Nat} {r : List Char} {pos : Nat}
    {a : List Char} {hi : Option (Nat × Nat)} {r' : List Char} {p' : Nat}
    (h : noHigh o acc pe cp r pos = .more a hi r' p') : r' = r ∧ p' = pos := by
  unfold noHigh at h
  repeat' (split at h)
  all_goals (first | cases h | skip)
  all_goals exact ⟨rfl, rfl⟩

theorem flushChar_adv {o : ParseOptions} {acc : List Char} {high : Option (Nat × Nat)} {c : Char}
    {r : List Char} {pos pn : Nat} {a : List Char} {hi : Option (Nat × Nat)} {r' : List Char} {p' : Nat}
    (h : flushChar o acc high c r pos pn = .more a hi r' p') : r' = r ∧ p' = pos := by
  unfold flushChar at h
  repeat' (split at h)
  all_goals (first | cases h | skip)
  all_goals exact ⟨rfl, rfl⟩

theorem strEscU_adv {o : ParseOptions} {bad : Bool} {acc : List Char} {high : Option (Nat × Nat)}
    {r2 : List Char} {pe pos : Nat} {a : List Char} {hi : Option (Nat × Nat)} {r : List Char} {p : Nat}
    (h : strEscU o bad acc high r2 pe pos = .more a hi r p) : AdvL r2 pos r p := by
  unfold strEscU at h
  split at h
  · cases h
  · rename_i cp r3 pos3 h4
    have h4' := hex4_adv h4
    repeat' (split at h)
    all_goals (first | (cases h; done) | skip)
    all_goals (try (obtain ⟨e1, e2⟩ := noHigh_adv h; subst e1 e2))
    all_goals (try cases h)
    all_goals exact h4'

theorem strEsc_adv {o : ParseOptions} {bad : Bool} {acc : List Char} {high : Option (Nat × Nat)}
    {r : List Char} {pos pn : Nat} {a : List Char} {hi : Option (Nat × Nat)} {r' : List Char} {p : Nat}
    (h : strEsc o bad acc high r pos pn = .more a hi r' p) : AdvL r pos r' p := by
  unfold strEsc at h
  split at h
  · cases h
  · rename_i e r2
    split at h
    · exact (AdvL.cons e r2 pos).trans (strEscU_adv h)
    · split at h
      · obtain ⟨e1, e2⟩ := flushChar_adv h; subst e1 e2; exact AdvL.cons _ _ _
      · cases h

theorem strStep_more_adv {o : ParseOptions} {bad : Bool} {acc : List Char} {high : Option (Nat × Nat)}
    {l : List Char} {pos : Nat} {a : List Char} {hi : Option (Nat × Nat)} {r : List Char} {p : Nat}
    (h : strStep o bad acc high l pos = .more a hi r p) : AdvL l pos r p := by
  unfold strStep at h
  split at h
  · cases h
  · rename_i c r0
    split at h
    · repeat' (split at h)
      all_goals cases h
    · split at h
      · exact (AdvL.cons c r0 pos).trans (strEsc_adv h)
      · split at h
        · cases h
        · obtain ⟨e1, e2⟩ := flushChar_adv h; subst e1 e2; exact AdvL.cons _ _ _

theorem strStep_done_adv {o : ParseOptions} {bad : Bool} {acc : List Char} {high : Option (Nat × Nat)}
    {l : List Char} {pos : Nat} {a r : List Char} {p q : Nat}
    (h : strStep o bad acc high l pos = .done a r p q) : AdvL l pos r p := by
  unfold strStep at h
  split at h
  · cases h
  · rename_i c r0
    split at h
    · repeat' (split at h)
      all_goals (first | (cases h; exact AdvL.cons _ _ _) | cases h)
    · split at h
      · unfold strEsc at h
        repeat' (split at h)
        all_goals (first | cases h | skip)
        · unfold strEscU at h
          repeat' (split at h)
          all_goals (first | cases h | skip)
          all_goals (unfold noHigh at h; repeat' (split at h))
          all_goals cases h
        · unfold flushChar at h
          repeat' (split at h)
          all_goals cases h
      · split at h
        · cases h
        · unfold flushChar at h
          repeat' (split at h)
          all_goals cases h

theorem strLoopAux_adv {o : ParseOptions} {bad : Bool} (fuel : List Char) :
    ∀ {acc : List Char} {high : Option (Nat × Nat)} {l : List Char} {pos : Nat}
      {a r : List Char} {p q : Nat},
      strLoopAux o bad fuel acc high l pos = .ok (a, r, p, q) → AdvL l pos r p := by
  induction fuel with
  | nil =>
    intro acc high l pos a r p q h
    rw [strLoopAux] at h
    split at h
    · rename_i hs; cases h; exact strStep_done_adv hs
    · cases h
    · cases h
  | cons c fuel ih =>
    intro acc high l pos a r p q h
    rw [strLoopAux] at h
    split at h
    · rename_i hs; cases h; exact strStep_done_adv hs
    · cases h
    · rename_i hs
      exact (strStep_more_adv hs).trans (ih h)

theorem strLoop_adv {o : ParseOptions} {bad : Bool}
    {acc : List Char} {high : Option (Nat × Nat)} {l : List Char} {pos : Nat}
    {a r : List Char} {p q : Nat}
    (h : strLoop o bad acc high l pos = .ok (a, r, p, q)) : AdvL l pos r p :=
  strLoopAux_adv _ h

theorem lexString_adv {o : ParseOptions} {s : PS} {str : List Char} {s' : PS}
    (h : lexString o s = .ok (str, s')) : Adv s s' := by
  unfold lexString at h
  simp only [PS.beginFragment_fst, PS.beginFragment_snd] at h
  split at h
  · cases h
  · rename_i d r hr
    simp only [beginFragment_rest] at hr
    split at h
    · split at h
      · cases h
      · rename_i str' r' pos' q hv
        split at h
        · cases h
        · rename_i s1 h1
          cases h
          have h2 := strLoop_adv hv
          refine Adv.trans ?_ (adv_end h1)
          refine ⟨?_, rfl, by simp [PS.reserve]⟩
          simp only [beginFragment_pos]
          rw [hr]
          exact (AdvL.cons d r s.pos).trans h2
    · cases h

theorem lexKeyColon_adv {o : ParseOptions} {s : PS} {k : List Char} {e : Nat} {s' : PS}
    (h : lexKeyColon o s = .ok (k, e, s')) : Adv s s' := by
  unfold lexKeyColon at h
  simp only [PS.beginFragment_fst, PS.beginFragment_snd] at h
  split at h
  · cases h
  · rename_i key s1 hv
    split at h
    · cases h
    · rename_i s2 h2
      split at h
      · cases h
      · rename_i s3 h3
        cases h
        exact (adv_begin s).trans ((lexString_adv hv).trans ((skipWs_adv h2).trans (expectChar_adv h3)))

theorem startArray_adv {s : PS} {f : Fragment} {s' : PS} (h : startArray s = .ok (f, s')) :
    Adv s s' := by
  unfold startArray at h
  simp only [PS.beginFragment_fst, PS.beginFragment_snd] at h
  split at h
  · cases h
  · rename_i s1 h1
    have l1 := (adv_begin s).trans (expectChar_adv h1)
    split at h
    · cases h
    · rename_i s2 h2
      have l2 := l1.trans (skipWs_adv h2)
      split at h
      · rename_i d r hr
        split at h
        · split at h
          · cases h
          · rename_i s3 h3
            cases h
            exact l2.trans ((adv_adv hr).trans (adv_end h3))
        · cases h; exact l2
      · cases h; exact l2

theorem startObjectKey_adv {o : ParseOptions} {i : Nat} {s : PS} {f : Fragment} {s' : PS}
    (h : startObjectKey o i s = .ok (f, s')) : Adv s s' := by
  unfold startObjectKey at h
  split at h
  · cases h
  · rename_i k e s3 h3
    cases h
    exact lexKeyColon_adv h3

theorem startObject_adv {o : ParseOptions} {s : PS} {f : Fragment} {s' : PS}
    (h : startObject o s = .ok (f, s')) : Adv s s' := by
  unfold startObject at h
  simp only [PS.beginFragment_fst, PS.beginFragment_snd] at h
  split at h
  · cases h
  · rename_i s1 h1
    have l1 := (adv_begin s).trans (expectChar_adv h1)
    split at h
    · cases h
    · rename_i s2 h2
      have l2 := l1.trans (skipWs_adv h2)
      split at h
      · rename_i d r hr
        split at h
        · split at h
          · cases h
          · rename_i s3 h3
            cases h
            exact l2.trans ((adv_adv hr).trans (adv_end h3))
        · exact l2.trans (startObjectKey_adv h)
      · exact l2.trans (startObjectKey_adv h)

theorem parseFragment_adv {o : ParseOptions} {ctx : Ctx} {s : PS} {f : Fragment} {s' : PS}
    (h : parseFragment o ctx s = .ok (f, s')) : Adv s s' := by
  unfold parseFragment at h
  split at h
  · cases h
  · rename_i s0 h0
    have l0 := skipWs_adv h0
    split at h
    · cases h
    · repeat' (split at h)
      all_goals (first | (cases h; done) | skip)
      · rename_i h1; cases h; exact l0.trans (lexNull_adv h1)
      · rename_i h1; cases h; exact l0.trans (lexBool_adv h1)
      · rename_i h1; cases h; exact l0.trans (lexNumber_adv h1)
      · rename_i h1; cases h; exact l0.trans (lexString_adv h1)
      · exact l0.trans (startArray_adv h)
      · exact l0.trans (startObject_adv h)

theorem contArray_adv {i : Nat} {s : PS} {c : ArrCont} {s' : PS}
    (h : contArray i s = .ok (c, s')) : Adv s s' := by
  unfold contArray at h
  split at h
  · cases h
  · rename_i s0 h0
    have l0 := skipWs_adv h0
    split at h
    · cases h
    · rename_i d r hr
      split at h
      · cases h; exact l0.trans (adv_adv hr)
      · split at h
        · split at h
          · cases h
          · rename_i s1 h1
            cases h
            exact l0.trans ((adv_adv hr).trans (adv_end h1))
        · cases h

theorem contObject_adv {o : ParseOptions} {i : Nat} {s : PS} {c : ObjCont} {s' : PS}
    (h : contObject o i s = .ok (c, s')) : Adv s s' := by
  unfold contObject at h
  split at h
  · cases h
  · rename_i s0 h0
    have l0 := skipWs_adv h0
    split at h
    · cases h
    · rename_i d r hr
      split at h
      · split at h
        · cases h
        · rename_i s1 h1
          split at h
          · cases h
          · rename_i k e s2 h2
            cases h
            exact l0.trans ((adv_adv hr).trans ((skipWs_adv h1).trans (lexKeyColon_adv h2)))
      · split at h
        · split at h
          · cases h
          · rename_i s1 h1
            cases h
            exact l0.trans ((adv_adv hr).trans (adv_end h1))
        · cases h

end JsonVerif
