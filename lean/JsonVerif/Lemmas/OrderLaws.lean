import JsonVerif.Model.Order
/-!
# The derived ordering is a total order consistent with equality (C14)
-/
namespace JsonVerif

theorem cmpNat_refl (a : Nat) : cmpNat a a = .eq := by simp [cmpNat]
theorem cmpNat_eq {a b : Nat} (h : cmpNat a b = .eq) : a = b := by
  unfold cmpNat at h; split at h
  · cases h
  · split at h
    · assumption
    · cases h
theorem cmpNat_swap (a b : Nat) : cmpNat b a = (cmpNat a b).swap := by
  unfold cmpNat
  by_cases h1 : a < b
  · have : ¬ b < a := by omega
    have : ¬ b = a := by omega
    simp [*]
  · by_cases h2 : a = b
    · subst h2; simp
    · have : b < a := by omega
      simp [*]
theorem cmpNat_lt {a b : Nat} : cmpNat a b = .lt ↔ a < b := by
  unfold cmpNat; split
  · simp [*]
  · split <;> simp [*]
theorem cmpNat_trans {a b c : Nat} (h1 : cmpNat a b = .lt) (h2 : cmpNat b c = .lt) :
    cmpNat a c = .lt := by
  rw [cmpNat_lt] at *; omega

theorem cmpBool_refl (a : Bool) : cmpBool a a = .eq := by cases a <;> rfl
theorem cmpBool_eq {a b : Bool} (h : cmpBool a b = .eq) : a = b := by
  cases a <;> cases b <;> simp [cmpBool] at h <;> rfl
theorem cmpBool_swap (a b : Bool) : cmpBool b a = (cmpBool a b).swap := by
  cases a <;> cases b <;> rfl
theorem cmpBool_trans {a b c : Bool} (h1 : cmpBool a b = .lt) (h2 : cmpBool b c = .lt) :
    cmpBool a c = .lt := by
  cases a <;> cases b <;> cases c <;> simp [cmpBool] at *

theorem cmpChars_refl : ∀ a, cmpChars a a = .eq
  | [] => rfl
  | c :: r => by simp [cmpChars, cmpNat_refl, cmpChars_refl r]

theorem cmpChars_eq : ∀ {a b}, cmpChars a b = .eq → a = b
  | [], [], _ => rfl
  | [], _ :: _, h => by simp [cmpChars] at h
  | _ :: _, [], h => by simp [cmpChars] at h
  | x :: xs, y :: ys, h => by
    simp only [cmpChars] at h
    split at h
    · rename_i hxy
      have := Char.toNat_inj.mp (cmpNat_eq hxy)
      rw [this, cmpChars_eq h]
    · rename_i o ho
      cases o <;> simp_all

theorem cmpChars_swap : ∀ a b, cmpChars b a = (cmpChars a b).swap
  | [], [] => rfl
  | [], _ :: _ => rfl
  | _ :: _, [] => rfl
  | x :: xs, y :: ys => by
    simp only [cmpChars]
    rw [cmpNat_swap x.toNat y.toNat]
    cases h : cmpNat x.toNat y.toNat <;> simp [Ordering.swap, cmpChars_swap xs ys]

theorem cmpChars_trans : ∀ {a b c}, cmpChars a b = .lt → cmpChars b c = .lt → cmpChars a c = .lt
  | [], [], _, h, _ => by simp [cmpChars] at h
  | [], _ :: _, [], _, h => by simp [cmpChars] at h
  | [], _ :: _, _ :: _, _, _ => rfl
  | _ :: _, [], _, h, _ => by simp [cmpChars] at h
  | _ :: _, _ :: _, [], _, h => by simp [cmpChars] at h
  | x :: xs, y :: ys, z :: zs, h1, h2 => by
    simp only [cmpChars] at *
    cases hxy : cmpNat x.toNat y.toNat with
    | gt => simp [hxy] at h1
    | lt =>
      cases hyz : cmpNat y.toNat z.toNat with
      | gt => simp [hyz] at h2
      | lt => simp [cmpNat_trans hxy hyz]
      | eq => have := cmpNat_eq hyz; rw [← this]; simp [hxy]
    | eq =>
      have e1 := cmpNat_eq hxy
      cases hyz : cmpNat y.toNat z.toNat with
      | gt => simp [hyz] at h2
      | lt => rw [e1]; simp [hyz]
      | eq =>
        rw [e1]; simp only [hyz]
        simp only [hxy] at h1; simp only [hyz] at h2
        exact cmpChars_trans h1 h2

/-- lexicographic combination of two comparison results -/
def Ordering.thenLex (a b : Ordering) : Ordering := match a with | .eq => b | o => o

mutual
theorem cmp_refl : ∀ a : JValue, JValue.cmp a a = .eq
  | .null => rfl
  | .bool b => by simp [JValue.cmp, cmpBool_refl]
  | .number n => by simp [JValue.cmp, cmpChars_refl]
  | .string s => by simp [JValue.cmp, cmpChars_refl]
  | .array xs => by simp [JValue.cmp, cmpL_refl xs]
  | .object es => by simp [JValue.cmp, cmpM_refl es]
theorem cmpL_refl : ∀ xs : List JValue, cmpL xs xs = .eq
  | [] => rfl
  | x :: xs => by simp [cmpL, cmp_refl x, cmpL_refl xs]
theorem cmpM_refl : ∀ es : List (List Char × JValue), cmpM es es = .eq
  | [] => rfl
  | (k, x) :: es => by simp [cmpM, cmpChars_refl, cmp_refl x, cmpM_refl es]
end

theorem rank_ne_eq {a b : JValue} (h : a.rank ≠ b.rank) : cmpNat a.rank b.rank ≠ .eq :=
  fun e => h (cmpNat_eq e)

mutual
theorem cmp_eq : ∀ {a b : JValue}, JValue.cmp a b = .eq → a = b
  | .null, b, h => by cases b <;> simp [JValue.cmp, cmpNat, JValue.rank] at h ⊢
  | .bool x, b, h => by
    cases b <;> simp [JValue.cmp, cmpNat, JValue.rank] at h ⊢
    exact cmpBool_eq h
  | .number x, b, h => by
    cases b <;> simp [JValue.cmp, cmpNat, JValue.rank] at h ⊢
    exact cmpChars_eq h
  | .string x, b, h => by
    cases b <;> simp [JValue.cmp, cmpNat, JValue.rank] at h ⊢
    exact cmpChars_eq h
  | .array xs, b, h => by
    cases b <;> simp [JValue.cmp, cmpNat, JValue.rank] at h ⊢
    exact cmpL_eq h
  | .object es, b, h => by
    cases b <;> simp [JValue.cmp, cmpNat, JValue.rank] at h ⊢
    exact cmpM_eq h
theorem cmpL_eq : ∀ {xs ys : List JValue}, cmpL xs ys = .eq → xs = ys
  | [], [], _ => rfl
  | [], _ :: _, h => by simp [cmpL] at h
  | _ :: _, [], h => by simp [cmpL] at h
  | x :: xs, y :: ys, h => by
    simp only [cmpL] at h
    split at h
    · rename_i hxy; rw [cmp_eq hxy, cmpL_eq h]
    · rename_i o ho; cases o <;> simp_all
theorem cmpM_eq : ∀ {xs ys : List (List Char × JValue)}, cmpM xs ys = .eq → xs = ys
  | [], [], _ => rfl
  | [], _ :: _, h => by simp [cmpM] at h
  | _ :: _, [], h => by simp [cmpM] at h
  | (k, x) :: xs, (l, y) :: ys, h => by
    simp only [cmpM] at h
    split at h
    · rename_i hkl
      split at h
      · rename_i hxy; rw [cmpChars_eq hkl, cmp_eq hxy, cmpM_eq h]
      · rename_i o ho; cases o <;> simp_all
    · rename_i o ho; cases o <;> simp_all
end

mutual
theorem cmp_swap : ∀ a b : JValue, JValue.cmp b a = (JValue.cmp a b).swap
  | .null, b => by cases b <;> simp [JValue.cmp, cmpNat, JValue.rank, Ordering.swap]
  | .bool x, b => by
    cases b <;> simp [JValue.cmp, cmpNat, JValue.rank, Ordering.swap]
    exact cmpBool_swap _ _
  | .number x, b => by
    cases b <;> simp [JValue.cmp, cmpNat, JValue.rank, Ordering.swap]
    exact cmpChars_swap _ _
  | .string x, b => by
    cases b <;> simp [JValue.cmp, cmpNat, JValue.rank, Ordering.swap]
    exact cmpChars_swap _ _
  | .array xs, b => by
    cases b <;> simp [JValue.cmp, cmpNat, JValue.rank, Ordering.swap]
    exact cmpL_swap _ _
  | .object es, b => by
    cases b <;> simp [JValue.cmp, cmpNat, JValue.rank, Ordering.swap]
    exact cmpM_swap _ _
theorem cmpL_swap : ∀ xs ys : List JValue, cmpL ys xs = (cmpL xs ys).swap
  | [], [] => rfl
  | [], _ :: _ => rfl
  | _ :: _, [] => rfl
  | x :: xs, y :: ys => by
    simp only [cmpL]
    rw [cmp_swap x y]
    cases h : JValue.cmp x y <;> simp [Ordering.swap, cmpL_swap xs ys]
theorem cmpM_swap : ∀ xs ys : List (List Char × JValue), cmpM ys xs = (cmpM xs ys).swap
  | [], [] => rfl
  | [], _ :: _ => rfl
  | _ :: _, [] => rfl
  | (k, x) :: xs, (l, y) :: ys => by
    simp only [cmpM]
    rw [cmpChars_swap k l, cmp_swap x y]
    cases h : cmpChars k l <;> cases h2 : JValue.cmp x y <;> simp [Ordering.swap, cmpM_swap xs ys]
end

end JsonVerif

namespace JsonVerif

theorem cmp_rank {a b : JValue} (h : a.rank ≠ b.rank) : JValue.cmp a b = cmpNat a.rank b.rank := by
  cases a <;> cases b <;> simp [JValue.rank] at h <;> simp [JValue.cmp]

theorem cmp_lt_rank {a b : JValue} (h : JValue.cmp a b = .lt) : a.rank ≤ b.rank := by
  by_cases hr : a.rank = b.rank
  · omega
  · rw [cmp_rank hr, cmpNat_lt] at h; omega

mutual
theorem cmp_trans : ∀ {a b c : JValue}, JValue.cmp a b = .lt → JValue.cmp b c = .lt →
    JValue.cmp a c = .lt
  | a, b, c, h1, h2 => by
    have r1 := cmp_lt_rank h1
    have r2 := cmp_lt_rank h2
    by_cases hab : a.rank = b.rank
    · by_cases hbc : b.rank = c.rank
      · -- all three of the same variant
        match a, b, c, hab, hbc, h1, h2 with
        | .null, .null, .null, _, _, h1, _ => simp [JValue.cmp] at h1
        | .bool x, .bool y, .bool z, _, _, h1, h2 =>
          simp only [JValue.cmp] at *; exact cmpBool_trans h1 h2
        | .number x, .number y, .number z, _, _, h1, h2 =>
          simp only [JValue.cmp] at *; exact cmpChars_trans h1 h2
        | .string x, .string y, .string z, _, _, h1, h2 =>
          simp only [JValue.cmp] at *; exact cmpChars_trans h1 h2
        | .array x, .array y, .array z, _, _, h1, h2 =>
          simp only [JValue.cmp] at *; exact cmpL_trans h1 h2
        | .object x, .object y, .object z, _, _, h1, h2 =>
          simp only [JValue.cmp] at *; exact cmpM_trans h1 h2
      · rw [cmp_rank hbc, cmpNat_lt] at h2
        have : a.rank ≠ c.rank := by omega
        rw [cmp_rank this, cmpNat_lt]; omega
    · rw [cmp_rank hab, cmpNat_lt] at h1
      have : a.rank ≠ c.rank := by omega
      rw [cmp_rank this, cmpNat_lt]; omega
theorem cmpL_trans : ∀ {a b c : List JValue}, cmpL a b = .lt → cmpL b c = .lt → cmpL a c = .lt
  | [], [], _, h, _ => by simp [cmpL] at h
  | [], _ :: _, [], _, h => by simp [cmpL] at h
  | [], _ :: _, _ :: _, _, _ => rfl
  | _ :: _, [], _, h, _ => by simp [cmpL] at h
  | _ :: _, _ :: _, [], _, h => by simp [cmpL] at h
  | x :: xs, y :: ys, z :: zs, h1, h2 => by
    simp only [cmpL] at *
    cases hxy : JValue.cmp x y with
    | gt => simp [hxy] at h1
    | lt =>
      cases hyz : JValue.cmp y z with
      | gt => simp [hyz] at h2
      | lt => simp [cmp_trans hxy hyz]
      | eq => have := cmp_eq hyz; rw [← this]; simp [hxy]
    | eq =>
      have e1 := cmp_eq hxy
      cases hyz : JValue.cmp y z with
      | gt => simp [hyz] at h2
      | lt => rw [e1]; simp [hyz]
      | eq =>
        rw [e1]; simp only [hyz]
        simp only [hxy] at h1; simp only [hyz] at h2
        exact cmpL_trans h1 h2
theorem cmpM_trans : ∀ {a b c : List (List Char × JValue)},
    cmpM a b = .lt → cmpM b c = .lt → cmpM a c = .lt
  | [], [], _, h, _ => by simp [cmpM] at h
  | [], _ :: _, [], _, h => by simp [cmpM] at h
  | [], _ :: _, _ :: _, _, _ => rfl
  | _ :: _, [], _, h, _ => by simp [cmpM] at h
  | _ :: _, _ :: _, [], _, h => by simp [cmpM] at h
  | (k, x) :: xs, (l, y) :: ys, (m, z) :: zs, h1, h2 => by
    simp only [cmpM] at *
    cases hkl : cmpChars k l with
    | gt => simp [hkl] at h1
    | lt =>
      cases hlm : cmpChars l m with
      | gt => simp [hlm] at h2
      | lt => simp [cmpChars_trans hkl hlm]
      | eq => have := cmpChars_eq hlm; rw [← this]; simp [hkl]
    | eq =>
      have e1 := cmpChars_eq hkl
      cases hlm : cmpChars l m with
      | gt => simp [hlm] at h2
      | lt => rw [e1]; simp [hlm]
      | eq =>
        rw [e1]; simp only [hlm]
        simp only [hkl] at h1; simp only [hlm] at h2
        cases hxy : JValue.cmp x y with
        | gt => simp [hxy] at h1
        | lt =>
          cases hyz : JValue.cmp y z with
          | gt => simp [hyz] at h2
          | lt => simp [cmp_trans hxy hyz]
          | eq => have := cmp_eq hyz; rw [← this]; simp [hxy]
        | eq =>
          have e2 := cmp_eq hxy
          cases hyz : JValue.cmp y z with
          | gt => simp [hyz] at h2
          | lt => rw [e2]; simp [hyz]
          | eq =>
            rw [e2]; simp only [hyz]
            simp only [hxy] at h1; simp only [hyz] at h2
            exact cmpM_trans h1 h2
end

end JsonVerif
