import JsonVerif.Lemmas.PermEqLaws
import JsonVerif.Model.De
/-!
# Typed deserialization is blind to the order of object members

serde_json renders structs through a sorted map, so "deserializing serde_json's rendering of the
datum" reads the members in another order. For every descriptor without map types, a successful
deserialization gives the same datum on any value that is equal up to permutation of object members
at every depth (`PermEq`, the specification relation of C15).
-/
namespace JsonVerif

/-! ## The struct visitor's slot filling under reordering -/

theorem fillSlots_swap (look : List Char → JValue → Option (Nat × Except DeErr SData))
    (e1 e2 : List Char × JValue) (r : List (List Char × JValue)) (s z : List (Option SData))
    (h : fillSlots look (e1 :: e2 :: r) s = .ok z) : fillSlots look (e2 :: e1 :: r) s = .ok z := by
  obtain ⟨k1, x1⟩ := e1
  obtain ⟨k2, x2⟩ := e2
  simp only [fillSlots] at h ⊢
  cases h1 : look k1 x1 with
  | none =>
    simp only [h1] at h
    cases h2 : look k2 x2 with
    | none => simpa [h2] using h
    | some p2 => simpa [h2] using h
  | some p1 =>
    obtain ⟨i1, r1⟩ := p1
    simp only [h1] at h
    cases h2 : look k2 x2 with
    | none => simpa [h2] using h
    | some p2 =>
      obtain ⟨i2, r2⟩ := p2
      simp only [h2] at h ⊢
      -- first entry succeeded on `s`
      cases hs1 : s[i1]? with
      | none =>
        -- out of range: `set` is a no-op
        have hlen : s.length ≤ i1 := by simpa using hs1
        simp only [hs1] at h
        cases r1 with
        | error e => simp at h
        | ok d1 =>
          simp only [List.set_eq_of_length_le hlen] at h
          cases hs2 : s[i2]? with
          | none =>
            have hlen2 : s.length ≤ i2 := by simpa using hs2
            simp only [hs2] at h ⊢
            cases r2 with
            | error e => simp at h
            | ok d2 =>
              simp only [List.set_eq_of_length_le hlen2] at h ⊢
              simp only [hs1, List.set_eq_of_length_le hlen]
              exact h
          | some o2 =>
            simp only [hs2] at h ⊢
            cases o2 with
            | some _ => simp at h
            | none =>
              cases r2 with
              | error e => simp at h
              | ok d2 =>
                simp only at h ⊢
                have : (s.set i2 (some d2))[i1]? = none := by
                  simp [List.getElem?_set, hs1]; omega
                simp only [this, List.set_eq_of_length_le (by simpa using hlen : (s.set i2 (some d2)).length ≤ i1)]
                exact h
      | some o1 =>
        simp only [hs1] at h
        cases o1 with
        | some _ => simp at h
        | none =>
          cases r1 with
          | error e => simp at h
          | ok d1 =>
            simp only at h
            have hi1 : i1 < s.length := by
              have := (List.getElem?_eq_some_iff.1 hs1).1; exact this
            by_cases hne : i1 = i2
            · subst hne
              have : (s.set i1 (some d1))[i1]? = some (some d1) := by simp [hi1]
              simp [this] at h
            · have hs2' : (s.set i1 (some d1))[i2]? = s[i2]? := by
                simp [List.getElem?_set, hne]
              rw [hs2'] at h
              cases hs2 : s[i2]? with
              | none =>
                have hlen2 : s.length ≤ i2 := by simpa using hs2
                simp only [hs2] at h ⊢
                cases r2 with
                | error e => simp at h
                | ok d2 =>
                  simp only at h ⊢
                  rw [List.set_eq_of_length_le (by simpa using hlen2 : (s.set i1 (some d1)).length ≤ i2)] at h
                  simp only [List.set_eq_of_length_le hlen2, hs1]
                  exact h
              | some o2 =>
                simp only [hs2] at h ⊢
                cases o2 with
                | some _ => simp at h
                | none =>
                  cases r2 with
                  | error e => simp at h
                  | ok d2 =>
                    simp only at h ⊢
                    have : (s.set i2 (some d2))[i1]? = some none := by
                      simp [List.getElem?_set, hs1]; intro e; exact absurd e.symm hne
                    simp only [this]
                    rw [List.set_comm _ _ (Ne.symm hne)]
                    exact h

theorem fillSlots_perm (look : List Char → JValue → Option (Nat × Except DeErr SData))
    {a b : List (List Char × JValue)} (hp : a.Perm b) :
    ∀ (s z : List (Option SData)), fillSlots look a s = .ok z → fillSlots look b s = .ok z := by
  induction hp with
  | nil => intro s z h; exact h
  | cons e _ ih =>
    intro s z h
    obtain ⟨k, x⟩ := e
    simp only [fillSlots] at h ⊢
    cases hl : look k x with
    | none => simp only [hl] at h ⊢; exact ih s z h
    | some p =>
      obtain ⟨i, r⟩ := p
      simp only [hl] at h ⊢
      cases hs : s[i]? with
      | none =>
        simp only [hs] at h ⊢
        cases r with
        | error e => simp at h
        | ok d => exact ih _ z h
      | some o =>
        simp only [hs] at h ⊢
        cases o with
        | some _ => simp at h
        | none =>
          cases r with
          | error e => simp at h
          | ok d => exact ih _ z h
  | swap e1 e2 l => intro s z h; exact fillSlots_swap look e2 e1 l s z h
  | trans _ _ ih1 ih2 => intro s z h; exact ih2 s z (ih1 s z h)

/-- pointwise related values: same result when the lookup gives the same successful answer -/
theorem fillSlots_pw (look : List Char → JValue → Option (Nat × Except DeErr SData))
    (H : ∀ k x y, PermEq x y →
      (look k x = none → look k y = none) ∧
      (∀ j r, look k x = some (j, r) → ∃ r', look k y = some (j, r') ∧ ∀ d, r = .ok d → r' = .ok d))
    {a b : List Entry} (hp : PW a b) :
    ∀ (s z : List (Option SData)), fillSlots look a s = .ok z → fillSlots look b s = .ok z := by
  induction hp with
  | nil => intro s z h; exact h
  | @cons k x y a0 b0 hxy _ ih =>
    intro s z h
    obtain ⟨H1, H2⟩ := H k x y hxy
    simp only [fillSlots] at h ⊢
    cases hl : look k x with
    | none => rw [H1 hl]; simp only [hl] at h; exact ih s z h
    | some p =>
      obtain ⟨i, r⟩ := p
      obtain ⟨r', hl', hr'⟩ := H2 i r hl
      simp only [hl] at h
      simp only [hl']
      cases hs : s[i]? with
      | none =>
        simp only [hs] at h ⊢
        cases r with
        | error e => simp at h
        | ok d => rw [hr' d rfl]; exact ih _ z h
      | some o =>
        simp only [hs] at h ⊢
        cases o with
        | some _ => simp at h
        | none =>
          cases r with
          | error e => simp at h
          | ok d => rw [hr' d rfl]; exact ih _ z h

theorem fillSlots_permEq (look : List Char → JValue → Option (Nat × Except DeErr SData))
    (H : ∀ k x y, PermEq x y →
      (look k x = none → look k y = none) ∧
      (∀ j r, look k x = some (j, r) → ∃ r', look k y = some (j, r') ∧ ∀ d, r = .ok d → r' = .ok d))
    {a b : List Entry} (hp : PermEqM a b) (s z : List (Option SData))
    (h : fillSlots look a s = .ok z) : fillSlots look b s = .ok z := by
  obtain ⟨c, hpw, hperm⟩ := hp.toPW
  exact fillSlots_perm look hperm s z (fillSlots_pw look H hpw s z h)

end JsonVerif

namespace JsonVerif

mutual
/-- descriptors without map types (a map datum is a list in the model, a Rust map is not) -/
def NoMap : DTy → Prop
  | .opt t => NoMap t
  | .newtype t => NoMap t
  | .seq t => NoMap t
  | .tuple ts => NoMapL ts
  | .map _ _ => False
  | .struct fs => NoMapF fs
  | .enum vs => NoMapF vs
  | _ => True
def NoMapL : List DTy → Prop
  | [] => True
  | t :: ts => NoMap t ∧ NoMapL ts
def NoMapF : List (List Char × DTy) → Prop
  | [] => True
  | (_, t) :: fs => NoMap t ∧ NoMapF fs
end

theorem PermEq.null_iff {v w : JValue} (h : PermEq v w) : v = .null ↔ w = .null := by
  cases h <;> simp

theorem de_opt_nonnull (env : FEnv) (t : DTy) (v : JValue) (h : v ≠ .null) (d : SData) :
    de env (.opt t) v = .ok d ↔ ∃ x, de env t v = .ok x ∧ d = .some x := by
  cases v with
  | null => exact absurd rfl h
  | bool b => simp only [de]; cases de env t (.bool b) <;> simp [eq_comm]
  | number n => simp only [de]; cases de env t (.number n) <;> simp [eq_comm]
  | string n => simp only [de]; cases de env t (.string n) <;> simp [eq_comm]
  | array n => simp only [de]; cases de env t (.array n) <;> simp [eq_comm]
  | object n => simp only [de]; cases de env t (.object n) <;> simp [eq_comm]

theorem PermEqL.length_eq : ∀ {a b : List JValue}, PermEqL a b → a.length = b.length
  | _, _, .nil => rfl
  | _, _, .cons _ h => by simp [PermEqL.length_eq h]

theorem PermEqM.single {k : List Char} {x : JValue} {b : List Entry} (h : PermEqM [(k, x)] b) :
    ∃ y, b = [(k, y)] ∧ PermEq x y := by
  obtain ⟨c, hpw, hperm⟩ := h.toPW
  cases hpw with
  | cons hxy hr =>
    cases hr
    have := List.perm_singleton.mp hperm.symm
    exact ⟨_, this, hxy⟩

theorem PermEqM.length_eq {a b : List Entry} (h : PermEqM a b) : a.length = b.length := by
  obtain ⟨c, hpw, hperm⟩ := h.toPW
  rw [hpw.length, hperm.length_eq]

mutual
theorem de_perm (env : FEnv) : ∀ (t : DTy), NoMap t → ∀ (v w : JValue) (d : SData), PermEq v w →
    de env t v = .ok d → de env t w = .ok d
  | .bool, _, v, w, d, hp, h => by cases hp <;> simp_all [de]
  | .int _, _, v, w, d, hp, h => by cases hp <;> simp_all [de]
  | .f32, _, v, w, d, hp, h => by cases hp <;> simp_all [de]
  | .f64, _, v, w, d, hp, h => by cases hp <;> simp_all [de]
  | .char, _, v, w, d, hp, h => by cases hp <;> simp_all [de]
  | .str, _, v, w, d, hp, h => by cases hp <;> simp_all [de]
  | .unit, _, v, w, d, hp, h => by cases hp <;> simp_all [de]
  | .unitStruct, _, v, w, d, hp, h => by cases hp <;> simp_all [de]
  | .map _ _, hn, _, _, _, _, _ => by cases hn
  | .opt t, hn, v, w, d, hp, h => by
    by_cases hv : v = .null
    · have hw := hp.null_iff.1 hv
      subst hv; subst hw; exact h
    · have hw : w ≠ .null := fun e => hv (hp.null_iff.2 e)
      obtain ⟨x, hx, rfl⟩ := (de_opt_nonnull env t v hv d).1 h
      exact (de_opt_nonnull env t w hw _).2 ⟨x, de_perm env t hn v w x hp hx, rfl⟩
  | .newtype t, hn, v, w, d, hp, h => by
    simp only [de] at h ⊢
    cases hd : de env t v with
    | error e => simp [hd] at h
    | ok x => rw [de_perm env t hn v w x hp hd]; simpa [hd] using h
  | .seq t, hn, v, w, d, hp, h => by
    have key : ∀ (a b : List JValue) (ds : List SData), PermEqL a b → mapE (de env t) a = .ok ds →
        mapE (de env t) b = .ok ds := by
      intro a
      induction a with
      | nil => intro b ds hl h; cases hl; exact h
      | cons x a ih =>
        intro b ds hl h
        cases hl with
        | cons hxy hr =>
          simp only [mapE] at h ⊢
          cases hd : de env t x with
          | error e => simp [hd] at h
          | ok dx =>
            rw [de_perm env t hn _ _ dx hxy hd]
            simp only [hd] at h
            cases hm : mapE (de env t) a with
            | error e => simp [hm] at h
            | ok l => rw [ih _ l hr hm]; simpa [hm] using h
    cases hp with
    | array hl =>
      simp only [de] at h ⊢
      rename_i a b
      cases hm : mapE (de env t) a with
      | error e => simp [hm] at h
      | ok l => rw [key a b l hl hm]; simpa [hm] using h
    | _ => simp [de] at h
  | .tuple ts, hn, v, w, d, hp, h => by
    cases hp with
    | array hl =>
      rename_i a b
      simp only [de] at h ⊢
      cases hm : deTuple env ts a with
      | error e => simp [hm, seqDone] at h
      | ok p =>
        obtain ⟨ds, rest⟩ := p
        obtain ⟨rest', h1, h2⟩ := de_permL env ts hn a b ds rest hl hm
        rw [h1]
        simp only [hm, seqDone] at h ⊢
        have : rest'.isEmpty = rest.isEmpty := by
          have := PermEqL.length_eq h2
          cases rest <;> cases rest' <;> simp_all
        rw [this]; exact h
    | _ => simp [de] at h
  | .struct fs, hn, v, w, d, hp, h => by
    cases hp with
    | array hl =>
      rename_i a b
      simp only [de] at h ⊢
      cases hm : deFieldsSeq env fs a with
      | error e => simp [hm, seqDone] at h
      | ok p =>
        obtain ⟨ds, rest⟩ := p
        obtain ⟨rest', h1, h2⟩ := de_permFS env fs hn a b ds rest hl hm
        rw [h1]
        simp only [hm, seqDone] at h ⊢
        have : rest'.isEmpty = rest.isEmpty := by
          have := PermEqL.length_eq h2
          cases rest <;> cases rest' <;> simp_all
        rw [this]; exact h
    | object hm =>
      rename_i a b
      simp only [de] at h ⊢
      cases hf : fillSlots (deField env fs 0) a (fs.map (fun _ => none)) with
      | error e => simp [hf] at h
      | ok slots =>
        rw [fillSlots_permEq (deField env fs 0) (fun k x y hxy => de_permField env fs hn 0 k x y hxy) hm _ _ hf]
        simpa [hf] using h
    | _ => simp [de] at h
  | .enum vs, hn, v, w, d, hp, h => by
    cases hp with
    | string s => exact h
    | object hm =>
      rename_i a b
      match a, hm, h with
      | [], hm, h => simp [de] at h
      | [(k, x)], hm, h =>
        obtain ⟨y, rfl, hxy⟩ := hm.single
        simp only [de] at h ⊢
        exact de_permV env vs hn k x y d hxy h
      | _ :: _ :: _, hm, h => simp [de] at h
    | _ => simp [de] at h
theorem de_permL (env : FEnv) : ∀ (ts : List DTy), NoMapL ts → ∀ (a b : List JValue) (ds : List SData)
    (rest : List JValue), PermEqL a b → deTuple env ts a = .ok (ds, rest) →
    ∃ rest', deTuple env ts b = .ok (ds, rest') ∧ PermEqL rest rest'
  | [], _, a, b, ds, rest, hl, h => by
    simp only [deTuple, Except.ok.injEq, Prod.mk.injEq] at h
    obtain ⟨rfl, rfl⟩ := h
    exact ⟨b, by simp [deTuple], hl⟩
  | t :: ts, hn, a, b, ds, rest, hl, h => by
    cases hl with
    | nil => simp [deTuple] at h
    | cons hxy hr =>
      rename_i x y xs ys
      simp only [deTuple] at h ⊢
      cases hd : de env t x with
      | error e => simp [hd] at h
      | ok dx =>
        rw [de_perm env t hn.1 x y dx hxy hd]
        simp only [hd] at h
        cases hm : deTuple env ts xs with
        | error e => simp [hm] at h
        | ok p =>
          obtain ⟨ds', r'⟩ := p
          obtain ⟨rest', h1, h2⟩ := de_permL env ts hn.2 xs ys ds' r' hr hm
          simp only [hm, Except.ok.injEq, Prod.mk.injEq] at h
          obtain ⟨rfl, rfl⟩ := h
          exact ⟨rest', by simp [h1], h2⟩
theorem de_permFS (env : FEnv) : ∀ (fs : List (List Char × DTy)), NoMapF fs → ∀ (a b : List JValue)
    (ds : List (List Char × SData)) (rest : List JValue), PermEqL a b →
    deFieldsSeq env fs a = .ok (ds, rest) →
    ∃ rest', deFieldsSeq env fs b = .ok (ds, rest') ∧ PermEqL rest rest'
  | [], _, a, b, ds, rest, hl, h => by
    simp only [deFieldsSeq, Except.ok.injEq, Prod.mk.injEq] at h
    obtain ⟨rfl, rfl⟩ := h
    exact ⟨b, by simp [deFieldsSeq], hl⟩
  | (n, t) :: fs, hn, a, b, ds, rest, hl, h => by
    cases hl with
    | nil => simp [deFieldsSeq] at h
    | cons hxy hr =>
      rename_i x y xs ys
      simp only [deFieldsSeq] at h ⊢
      cases hd : de env t x with
      | error e => simp [hd] at h
      | ok dx =>
        rw [de_perm env t hn.1 x y dx hxy hd]
        simp only [hd] at h
        cases hm : deFieldsSeq env fs xs with
        | error e => simp [hm] at h
        | ok p =>
          obtain ⟨ds', r'⟩ := p
          obtain ⟨rest', h1, h2⟩ := de_permFS env fs hn.2 xs ys ds' r' hr hm
          simp only [hm, Except.ok.injEq, Prod.mk.injEq] at h
          obtain ⟨rfl, rfl⟩ := h
          exact ⟨rest', by simp [h1], h2⟩
/-- the field lookup: the index depends on the key only, a successful value result carries over -/
theorem de_permField (env : FEnv) : ∀ (fs : List (List Char × DTy)), NoMapF fs → ∀ (i : Nat)
    (k : List Char) (x y : JValue), PermEq x y →
    (deField env fs i k x = none → deField env fs i k y = none) ∧
    (∀ j r, deField env fs i k x = some (j, r) →
      ∃ r', deField env fs i k y = some (j, r') ∧ ∀ d, r = .ok d → r' = .ok d)
  | [], _, i, k, x, y, _ => by simp [deField]
  | (n, t) :: fs, hn, i, k, x, y, hxy => by
    simp only [deField]
    by_cases hk : (n == k) = true
    · simp only [hk, ↓reduceIte]
      refine ⟨by simp, ?_⟩
      intro j r h
      simp only [Option.some.injEq, Prod.mk.injEq] at h
      obtain ⟨rfl, rfl⟩ := h
      exact ⟨_, rfl, fun d hd => de_perm env t hn.1 x y d hxy hd⟩
    · simp only [hk, Bool.false_eq_true, ↓reduceIte]
      exact de_permField env fs hn.2 (i + 1) k x y hxy
theorem de_permV (env : FEnv) : ∀ (vs : List (List Char × DTy)), NoMapF vs → ∀ (k : List Char)
    (x y : JValue) (d : SData), PermEq x y →
    deVariant env vs k (some x) = .ok d → deVariant env vs k (some y) = .ok d
  | [], _, k, x, y, d, _, h => by simp [deVariant] at h
  | (n, .unit) :: vs, hn, k, x, y, d, hxy, h => by
    simp only [deVariant] at h ⊢
    by_cases hk : (n == k) = true
    · simp only [hk, ↓reduceIte] at h ⊢
      cases hxy <;> simp_all
    · simp only [hk, Bool.false_eq_true, ↓reduceIte] at h ⊢
      exact de_permV env vs hn.2 k x y d hxy h
  | (n, .newtype t) :: vs, hn, k, x, y, d, hxy, h => by
    simp only [deVariant] at h ⊢
    by_cases hk : (n == k) = true
    · simp only [hk, ↓reduceIte] at h ⊢
      cases hd : de env t x with
      | error e => simp [hd] at h
      | ok dx => rw [de_perm env t hn.1 x y dx hxy hd]; simpa [hd] using h
    · simp only [hk, Bool.false_eq_true, ↓reduceIte] at h ⊢
      exact de_permV env vs hn.2 k x y d hxy h
  | (n, .tuple ts) :: vs, hn, k, x, y, d, hxy, h => by
    simp only [deVariant] at h ⊢
    by_cases hk : (n == k) = true
    · simp only [hk, ↓reduceIte] at h ⊢
      cases hxy with
      | array hl =>
        rename_i a b
        cases hl with
        | nil => simp at h
        | cons hx0 hr =>
          rename_i x0 y0 xs ys
          simp only at h ⊢
          cases hm : deTuple env ts (x0 :: xs) with
          | error e => simp [hm, seqDone] at h
          | ok p =>
            obtain ⟨ds, rest⟩ := p
            obtain ⟨rest', h1, h2⟩ := de_permL env ts hn.1 _ _ ds rest (.cons hx0 hr) hm
            rw [h1]
            simp only [hm, seqDone] at h ⊢
            have : rest'.isEmpty = rest.isEmpty := by
              have := PermEqL.length_eq h2
              cases rest <;> cases rest' <;> simp_all
            rw [this]; exact h
      | _ => simp at h
    · simp only [hk, Bool.false_eq_true, ↓reduceIte] at h ⊢
      exact de_permV env vs hn.2 k x y d hxy h
  | (n, .struct fs) :: vs, hn, k, x, y, d, hxy, h => by
    simp only [deVariant] at h ⊢
    by_cases hk : (n == k) = true
    · simp only [hk, ↓reduceIte] at h ⊢
      cases hxy with
      | object hm =>
        rename_i a b
        simp only at h ⊢
        cases hf : fillSlots (deField env fs 0) a (fs.map (fun _ => none)) with
        | error e => simp [hf] at h
        | ok slots =>
          rw [fillSlots_permEq (deField env fs 0) (fun k x y hxy => de_permField env fs hn.1 0 k x y hxy) hm _ _ hf]
          simpa [hf] using h
      | _ => simp at h
    · simp only [hk, Bool.false_eq_true, ↓reduceIte] at h ⊢
      exact de_permV env vs hn.2 k x y d hxy h
  | (n, .bool) :: vs, hn, k, x, y, d, hxy, h => by
    by_cases hk : (n == k) = true
    · simp [deVariant, hk] at h
    · simp only [deVariant, hk, Bool.false_eq_true, ↓reduceIte] at h ⊢
      exact de_permV env vs hn.2 k x y d hxy h
  | (n, .int w) :: vs, hn, k, x, y, d, hxy, h => by
    by_cases hk : (n == k) = true
    · simp [deVariant, hk] at h
    · simp only [deVariant, hk, Bool.false_eq_true, ↓reduceIte] at h ⊢
      exact de_permV env vs hn.2 k x y d hxy h
  | (n, .f32) :: vs, hn, k, x, y, d, hxy, h => by
    by_cases hk : (n == k) = true
    · simp [deVariant, hk] at h
    · simp only [deVariant, hk, Bool.false_eq_true, ↓reduceIte] at h ⊢
      exact de_permV env vs hn.2 k x y d hxy h
  | (n, .f64) :: vs, hn, k, x, y, d, hxy, h => by
    by_cases hk : (n == k) = true
    · simp [deVariant, hk] at h
    · simp only [deVariant, hk, Bool.false_eq_true, ↓reduceIte] at h ⊢
      exact de_permV env vs hn.2 k x y d hxy h
  | (n, .char) :: vs, hn, k, x, y, d, hxy, h => by
    by_cases hk : (n == k) = true
    · simp [deVariant, hk] at h
    · simp only [deVariant, hk, Bool.false_eq_true, ↓reduceIte] at h ⊢
      exact de_permV env vs hn.2 k x y d hxy h
  | (n, .str) :: vs, hn, k, x, y, d, hxy, h => by
    by_cases hk : (n == k) = true
    · simp [deVariant, hk] at h
    · simp only [deVariant, hk, Bool.false_eq_true, ↓reduceIte] at h ⊢
      exact de_permV env vs hn.2 k x y d hxy h
  | (n, .unitStruct) :: vs, hn, k, x, y, d, hxy, h => by
    by_cases hk : (n == k) = true
    · simp [deVariant, hk] at h
    · simp only [deVariant, hk, Bool.false_eq_true, ↓reduceIte] at h ⊢
      exact de_permV env vs hn.2 k x y d hxy h
  | (n, .opt t) :: vs, hn, k, x, y, d, hxy, h => by
    by_cases hk : (n == k) = true
    · simp [deVariant, hk] at h
    · simp only [deVariant, hk, Bool.false_eq_true, ↓reduceIte] at h ⊢
      exact de_permV env vs hn.2 k x y d hxy h
  | (n, .seq t) :: vs, hn, k, x, y, d, hxy, h => by
    by_cases hk : (n == k) = true
    · simp [deVariant, hk] at h
    · simp only [deVariant, hk, Bool.false_eq_true, ↓reduceIte] at h ⊢
      exact de_permV env vs hn.2 k x y d hxy h
  | (n, .map kk t) :: vs, hn, k, x, y, d, hxy, h => by
    by_cases hk : (n == k) = true
    · simp [deVariant, hk] at h
    · simp only [deVariant, hk, Bool.false_eq_true, ↓reduceIte] at h ⊢
      exact de_permV env vs hn.2 k x y d hxy h
  | (n, .enum es) :: vs, hn, k, x, y, d, hxy, h => by
    by_cases hk : (n == k) = true
    · simp [deVariant, hk] at h
    · simp only [deVariant, hk, Bool.false_eq_true, ↓reduceIte] at h ⊢
      exact de_permV env vs hn.2 k x y d hxy h
end

end JsonVerif
