import JsonVerif.Lemmas.Adv
/-!
# Leaf fragments: exact text, exact span, volume 1 (C02 verbatim clauses, C05 leaf clause)
-/
namespace JsonVerif

theorem push_set {α} (a : Array α) (x y : α) : (a.push x).setIfInBounds a.size y = a.push y := by
  apply Array.ext'
  simp [Array.toList_setIfInBounds]

theorem expectChar_cm {c : Char} {s s' : PS} (h : expectChar c s = .ok s') :
    s'.cm = s.cm ∧ s.rest = c :: s'.rest := by
  unfold expectChar at h
  split at h
  · cases h
  · rename_i d r hr
    split at h
    · rename_i hd; cases h; exact ⟨rfl, by rw [hr, hd]; rfl⟩
    · cases h

theorem expectChars_cm {cs : List Char} {s s' : PS} (h : expectChars cs s = .ok s') :
    s'.cm = s.cm ∧ s.rest = cs ++ s'.rest := by
  induction cs generalizing s with
  | nil => simp [expectChars] at h; subst h; exact ⟨rfl, rfl⟩
  | cons c cs ih =>
    simp only [expectChars] at h
    split at h
    · cases h
    · rename_i s1 h1
      obtain ⟨a1, b1⟩ := expectChar_cm h1
      obtain ⟨a2, b2⟩ := ih h
      exact ⟨by rw [a2, a1], by rw [b1, b2]; rfl⟩

theorem skipWs_cm {s s' : PS} (h : skipWs s = .ok s') : s'.cm = s.cm := by
  unfold skipWs at h
  simp only at h
  split at h
  · cases h
  · cases h; rfl

/-- closing a leaf: the entry reserved at `s` becomes `(start, end, 1)` -/
theorem leaf_end {s s1 s2 : PS} (hcm : s1.cm = s.reserve.cm)
    (h : s1.endFragment s.cm.size = .ok s2) : s2.cm = s.cm.push ⟨s.pos, s1.pos, 1⟩ := by
  unfold PS.endFragment at h
  rw [hcm] at h
  simp only [PS.reserve] at h
  have : (s.cm.push ⟨s.pos, s.pos, 0⟩)[s.cm.size]? = some ⟨s.pos, s.pos, 0⟩ := by simp
  rw [this] at h
  simp only at h
  cases h
  simp only [push_set, Array.size_push]
  congr 2
  omega

/-- `null`: consumes exactly `null`; one code-map entry spanning it, volume 1. -/
theorem lexNull_spec {s s' : PS} (h : lexNull s = .ok s') :
    s.rest = ['n', 'u', 'l', 'l'] ++ s'.rest ∧ s'.cm = s.cm.push ⟨s.pos, s'.pos, 1⟩ := by
  unfold lexNull at h
  simp only [PS.beginFragment_fst, PS.beginFragment_snd] at h
  split at h
  · cases h
  · rename_i s1 h1
    obtain ⟨a1, b1⟩ := expectChars_cm h1
    have hp := (endFragment_rest h)
    refine ⟨by rw [hp.1]; exact b1, ?_⟩
    rw [hp.2.1]
    exact leaf_end a1 h

/-- `true` / `false` -/
theorem lexBool_spec {s : PS} {b : Bool} {s' : PS} (h : lexBool s = .ok (b, s')) :
    s.rest = (if b then ['t', 'r', 'u', 'e'] else ['f', 'a', 'l', 's', 'e']) ++ s'.rest ∧
    s'.cm = s.cm.push ⟨s.pos, s'.pos, 1⟩ := by
  unfold lexBool at h
  simp only [PS.beginFragment_fst, PS.beginFragment_snd] at h
  split at h
  · cases h
  · split at h
    · split at h
      · cases h
      · rename_i s1 h1
        split at h
        · cases h
        · rename_i s2 h2
          cases h
          obtain ⟨a1, b1⟩ := expectChars_cm h1
          have hp := endFragment_rest h2
          refine ⟨by rw [hp.1]; exact b1, ?_⟩
          rw [hp.2.1]; exact leaf_end a1 h2
    · split at h
      · split at h
        · cases h
        · rename_i s1 h1
          split at h
          · cases h
          · rename_i s2 h2
            cases h
            obtain ⟨a1, b1⟩ := expectChars_cm h1
            have hp := endFragment_rest h2
            refine ⟨by rw [hp.1]; exact b1, ?_⟩
            rw [hp.2.1]; exact leaf_end a1 h2
      · cases h

/-- **Numbers are kept byte-for-byte**: the value is exactly the text consumed; its code-map entry
    spans exactly that text, volume 1. -/
theorem lexNumber_spec {ctx : Ctx} {s : PS} {n : List Char} {s' : PS}
    (h : lexNumber ctx s = .ok (n, s')) :
    s.rest = n ++ s'.rest ∧ s'.pos = s.pos + utf8Len n ∧ s'.cm = s.cm.push ⟨s.pos, s'.pos, 1⟩ := by
  unfold lexNumber at h
  simp only [PS.beginFragment_fst, PS.beginFragment_snd] at h
  split at h
  · cases h
  · rename_i st buf r pos hv
    split at h
    · cases h
    · split at h
      · split at h
        · cases h
        · rename_i s2 h2
          cases h
          obtain ⟨w, e, q, hb⟩ := numLoop_adv hv
          simp only [List.nil_append] at hb
          subst hb
          have hp := endFragment_rest h2
          refine ⟨by rw [hp.1]; simpa using e, by rw [hp.2.1]; simpa using q, ?_⟩
          rw [hp.2.1]
          exact leaf_end (s := s) (s1 := { s.reserve with rest := r, pos := pos }) rfl h2
      · cases h

/-- strings: one entry from the opening to the closing quote, volume 1 -/
theorem lexString_cm {o : ParseOptions} {s : PS} {str : List Char} {s' : PS}
    (h : lexString o s = .ok (str, s')) : s'.cm = s.cm.push ⟨s.pos, s'.pos, 1⟩ := by
  unfold lexString at h
  simp only [PS.beginFragment_fst, PS.beginFragment_snd] at h
  split at h
  · cases h
  · split at h
    · split at h
      · cases h
      · rename_i str' r' pos' q hv
        split at h
        · cases h
        · rename_i s1 h1
          cases h
          have hp := endFragment_rest h1
          rw [hp.2.1]
          exact leaf_end (s := s) (s1 := { s.reserve with rest := r', pos := pos' }) rfl h1
    · cases h

end JsonVerif
