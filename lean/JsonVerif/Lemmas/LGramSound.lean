import JsonVerif.Lemmas.GramSound
import JsonVerif.Lemmas.LenientStr
import JsonVerif.Spec.LGrammar
/-!
# Soundness of the recursive-descent parser under ANY option record, against `LValue o`

The proofs are those of Lemmas/GramSound.lean with the strict string lemmas replaced by
`lexString_iff` (Lemmas/LenientStr.lean); everything that does not touch strings is reused.
-/
namespace JsonVerif.Len
open JsonVerif
variable {o : ParseOptions}


theorem lexString_sound {s : PS} {str : List Char} {s' : PS}
    (h : lexString o s = .ok (str, s')) : ∃ t, s.rest = t ++ s'.rest ∧ LString o t str :=
  (lexString_iff o s str s'.rest).1 ⟨s', h, rfl⟩

theorem lexKeyColon_sound {s : PS} {key : List Char} {e : Nat} {s' : PS}
    (h : lexKeyColon o s = .ok (key, e, s')) :
    ∃ k w2, s.rest = k ++ w2 ++ ':' :: s'.rest ∧ LString o k key ∧ IsWsL w2 := by
  unfold lexKeyColon at h
  simp only [PS.beginFragment_fst, PS.beginFragment_snd] at h
  split at h
  · cases h
  · rename_i key' s1 h1
    split at h
    · cases h
    · rename_i s2 h2
      split at h
      · cases h
      · rename_i s3 h3
        cases h
        obtain ⟨k, hk, hg⟩ := lexString_sound h1
        obtain ⟨w2, hw, hws⟩ := skipWs_sound h2
        have h4 := expectChar_sound h3
        refine ⟨k, w2, ?_, hg, hws⟩
        simp only [beginFragment_rest] at hk
        rw [hk, hw, h4]; simp


/-- what `parseFragment` has read, by the kind of fragment it returns -/
theorem parseFragment_sound {ctx : Ctx} {s : PS} {f : Fragment} {s' : PS}
    (h : parseFragment o ctx s = .ok (f, s')) :
    match f with
    | .value v => ∃ w t, s.rest = w ++ t ++ s'.rest ∧ IsWsL w ∧ LValue o t v
    | .beginArray _ => ∃ w w0, s.rest = w ++ '[' :: (w0 ++ s'.rest) ∧ IsWsL w ∧ IsWsL w0
    | .beginObject _ key _ => ∃ w w0 k w2, s.rest = w ++ '{' :: (w0 ++ k ++ w2 ++ ':' :: s'.rest) ∧
        IsWsL w ∧ IsWsL w0 ∧ LString o k key ∧ IsWsL w2 := by
  unfold parseFragment at h
  split at h
  · cases h
  · rename_i s0 h0
    obtain ⟨w, hw, hws⟩ := skipWs_sound h0
    split at h
    · cases h
    · rename_i c r hr
      split at h
      · -- null
        split at h
        · cases h
        · rename_i s1 h1
          cases h
          exact ⟨w, _, by rw [hw, (lexNull_spec h1).1]; simp, hws, .null⟩
      · split at h
        · -- bool
          split at h
          · cases h
          · rename_i b s1 h1
            cases h
            have := (lexBool_spec h1).1
            cases b
            · exact ⟨w, _, by rw [hw, this]; simp, hws, .false⟩
            · exact ⟨w, _, by rw [hw, this]; simp, hws, .true⟩
        · split at h
          · -- number
            split at h
            · cases h
            · rename_i n s1 h1
              cases h
              obtain ⟨hr1, hn⟩ := lexNumber_sound h1
              exact ⟨w, n, by rw [hw, hr1]; simp, hws, .number n hn⟩
          · split at h
            · -- string
              split at h
              · cases h
              · rename_i str s1 h1
                cases h
                obtain ⟨t, ht, hg⟩ := lexString_sound h1
                exact ⟨w, t, by rw [hw, ht]; simp, hws, .string t str hg⟩
            · split at h
              · -- array
                unfold startArray at h
                simp only [PS.beginFragment_fst, PS.beginFragment_snd] at h
                split at h
                · cases h
                · rename_i s1 h1
                  have e1 := expectChar_sound h1
                  simp only [beginFragment_rest] at e1
                  split at h
                  · cases h
                  · rename_i s2 h2
                    obtain ⟨w0, hw0, hws0⟩ := skipWs_sound h2
                    split at h
                    · rename_i d r2 hr2
                      split at h
                      · rename_i hd
                        split at h
                        · cases h
                        · rename_i s3 h3
                          cases h
                          have hp := endFragment_rest h3
                          refine ⟨w, '[' :: (w0 ++ [']']), ?_, hws, .arrEmpty w0 hws0⟩
                          rw [hw, e1, hw0, hr2, hd, hp.1]; simp [PS.adv]
                      · cases h
                        exact ⟨w, w0, by rw [hw, e1, hw0], hws, hws0⟩
                    · cases h
                      exact ⟨w, w0, by rw [hw, e1, hw0], hws, hws0⟩
              · split at h
                · -- object
                  unfold startObject at h
                  simp only [PS.beginFragment_fst, PS.beginFragment_snd] at h
                  split at h
                  · cases h
                  · rename_i s1 h1
                    have e1 := expectChar_sound h1
                    simp only [beginFragment_rest] at e1
                    split at h
                    · cases h
                    · rename_i s2 h2
                      obtain ⟨w0, hw0, hws0⟩ := skipWs_sound h2
                      have hkey : ∀ {i f s'}, startObjectKey o i s2 = .ok (f, s') →
                          ∃ key e k w2, f = .beginObject i key e ∧ s2.rest = k ++ w2 ++ ':' :: s'.rest ∧
                            LString o k key ∧ IsWsL w2 := by
                        intro i f s' hh
                        unfold startObjectKey at hh
                        split at hh
                        · cases hh
                        · rename_i key e s3 hk
                          cases hh
                          obtain ⟨k, w2, hr, hg, hws2⟩ := lexKeyColon_sound hk
                          exact ⟨key, e, k, w2, rfl, hr, hg, hws2⟩
                      split at h
                      · rename_i d r2 hr2
                        split at h
                        · rename_i hd
                          split at h
                          · cases h
                          · rename_i s3 h3
                            cases h
                            have hp := endFragment_rest h3
                            refine ⟨w, '{' :: (w0 ++ ['}']), ?_, hws, .objEmpty w0 hws0⟩
                            rw [hw, e1, hw0, hr2, hd, hp.1]; simp [PS.adv]
                        · obtain ⟨key, e, k, w2, rfl, hr, hg, hws2⟩ := hkey h
                          exact ⟨w, w0, k, w2, by rw [hw, e1, hw0, hr]; simp, hws, hws0, hg, hws2⟩
                      · obtain ⟨key, e, k, w2, rfl, hr, hg, hws2⟩ := hkey h
                        exact ⟨w, w0, k, w2, by rw [hw, e1, hw0, hr]; simp, hws, hws0, hg, hws2⟩
                · cases h


def ObjContSpec (s s' : PS) : ObjCont → Prop
  | .entry key _ => ∃ w w1 k w2, s.rest = w ++ ',' :: (w1 ++ k ++ w2 ++ ':' :: s'.rest) ∧
      IsWsL w ∧ IsWsL w1 ∧ LString o k key ∧ IsWsL w2
  | .end_ => ∃ w, s.rest = w ++ '}' :: s'.rest ∧ IsWsL w


theorem contObject_sound {i : Nat} {s : PS} {c : ObjCont} {s' : PS}
    (h : contObject o i s = .ok (c, s')) : ObjContSpec (o := o) s s' c := by
  unfold contObject at h
  split at h
  · cases h
  · rename_i s0 h0
    obtain ⟨w, hw, hws⟩ := skipWs_sound h0
    split at h
    · cases h
    · rename_i d r hr
      split at h
      · rename_i hd
        split at h
        · cases h
        · rename_i s1 h1
          obtain ⟨w1, hw1, hws1⟩ := skipWs_sound h1
          split at h
          · cases h
          · rename_i key e s2 h2
            cases h
            obtain ⟨k, w2, hk, hg, hws2⟩ := lexKeyColon_sound h2
            refine ⟨w, w1, k, w2, ?_, hws, hws1, hg, hws2⟩
            simp only [PS.adv] at hw1
            rw [hw, hr, hd, hw1, hk]; simp
      · split at h
        · rename_i hd
          split at h
          · cases h
          · rename_i s1 h1
            cases h
            have hp := endFragment_rest h1
            exact ⟨w, by rw [hw, hr, hd, hp.1]; rfl, hws⟩
        · cases h


theorem LItems.prepend {t : List Char} {vs : List JValue} (h : LItems o t vs) {w0 : List Char}
    (hw : IsWsL w0) : LItems o (w0 ++ t) vs := by
  cases h with
  | one w1 t w2 v h1 hv h2 =>
    have := LItems.one (w0 ++ w1) t w2 v (hw.append h1) hv h2
    simpa using this
  | cons w1 t w2 ts v vs h1 hv h2 hts =>
    have := LItems.cons (w0 ++ w1) t w2 ts v vs (hw.append h1) hv h2 hts
    simpa using this


/-- **Soundness of the recursive-descent reference** (hence, by theorem B, of the parser) -/
theorem rd_sound : ∀ n,
    (∀ ctx s v s', rdValue o n ctx s = .ok (v, s') →
      ∃ w t, s.rest = w ++ t ++ s'.rest ∧ IsWsL w ∧ LValue o t v) ∧
    (∀ acc i s v s', rdItems o n acc i s = .ok (v, s') →
      ∃ t vs, s.rest = t ++ ']' :: s'.rest ∧ LItems o t vs ∧ v = .array (acc ++ vs)) ∧
    (∀ acc i key e s v s', rdMembers o n acc i key e s = .ok (v, s') →
      ∃ t es, s.rest = t ++ '}' :: s'.rest ∧ v = .object (acc ++ es) ∧
        ∀ w1 k w2, IsWsL w1 → LString o k key → IsWsL w2 → LMembers o (w1 ++ k ++ w2 ++ ':' :: t) es) := by
  intro n
  induction n with
  | zero => refine ⟨?_, ?_, ?_⟩ <;> intros <;> simp_all [rdValue, rdItems, rdMembers]
  | succ n ih =>
    obtain ⟨ihV, ihI, ihM⟩ := ih
    refine ⟨?_, ?_, ?_⟩
    · intro ctx s v s' h
      simp only [rdValue] at h
      split at h
      · cases h
      · rename_i v1 s1 hf
        cases h
        exact parseFragment_sound hf
      · rename_i i s1 hf
        obtain ⟨w, w0, hr, hws, hws0⟩ := parseFragment_sound hf
        obtain ⟨t, vs, ht, hg, rfl⟩ := ihI _ _ _ _ _ h
        refine ⟨w, '[' :: ((w0 ++ t) ++ [']']), ?_, hws, ?_⟩
        · rw [hr, ht]; simp
        · simpa using LValue.arr (w0 ++ t) vs (LItems.prepend hg hws0)
      · rename_i i key e s1 hf
        obtain ⟨w, w0, k, w2, hr, hws, hws0, hgk, hws2⟩ := parseFragment_sound hf
        obtain ⟨t, es, ht, rfl, hall⟩ := ihM _ _ _ _ _ _ _ h
        refine ⟨w, '{' :: ((w0 ++ k ++ w2 ++ ':' :: t) ++ ['}']), ?_, hws, ?_⟩
        · rw [hr, ht]; simp
        · simpa using LValue.obj _ es (hall w0 k w2 hws0 hgk hws2)
    · intro acc i s v s' h
      simp only [rdItems] at h
      split at h
      · cases h
      · rename_i v1 s1 hv
        obtain ⟨w1, t1, hr1, hws1, hg1⟩ := ihV _ _ _ _ hv
        split at h
        · cases h
        · rename_i s2 hc
          obtain ⟨w2, hws2, hr2⟩ := contArray_sound hc
          obtain ⟨t', vs', ht', hg', rfl⟩ := ihI _ _ _ _ _ h
          refine ⟨w1 ++ t1 ++ w2 ++ ',' :: t', v1 :: vs', ?_, .cons w1 t1 w2 t' v1 vs' hws1 hg1 hws2 hg', by simp⟩
          rw [hr1, hr2, ht']; simp
        · rename_i s2 hc
          obtain ⟨w2, hws2, hr2⟩ := contArray_sound hc
          cases h
          refine ⟨w1 ++ t1 ++ w2, [v1], ?_, .one w1 t1 w2 v1 hws1 hg1 hws2, rfl⟩
          rw [hr1, hr2]; simp
    · intro acc i key e s v s' h
      simp only [rdMembers] at h
      split at h
      · cases h
      · rename_i v1 s1 hv
        obtain ⟨w3, t1, hr1, hws3, hg1⟩ := ihV _ _ _ _ hv
        split at h
        · cases h
        · rename_i s2 he
          have hp := endFragment_rest he
          split at h
          · cases h
          · rename_i key' e' s3 hc
            obtain ⟨w4, w1', k', w2', hr2, hws4, hws1', hgk', hws2'⟩ := contObject_sound hc
            obtain ⟨t', es', ht', rfl, hall⟩ := ihM _ _ _ _ _ _ _ h
            refine ⟨w3 ++ t1 ++ w4 ++ ',' :: (w1' ++ k' ++ w2' ++ ':' :: t'), (key, v1) :: es', ?_, by simp, ?_⟩
            · rw [hr1, ← hp.1, hr2, ht']; simp
            · intro w1 k w2 h1 hk h2
              exact .cons w1 k w2 w3 t1 w4 _ key v1 es' h1 hk h2 hws3 hg1 hws4 (hall w1' k' w2' hws1' hgk' hws2')
          · rename_i s3 hc
            obtain ⟨w4, hr2, hws4⟩ := contObject_sound hc
            cases h
            refine ⟨w3 ++ t1 ++ w4, [(key, v1)], ?_, rfl, ?_⟩
            · rw [hr1, ← hp.1, hr2]; simp
            · intro w1 k w2 h1 hk h2
              exact .one w1 k w2 w3 t1 w4 key v1 h1 hk h2 hws3 hg1 hws4


theorem rdDocument_sound {n : Nat} {s : PS} {v : JValue} {s' : PS}
    (h : rdDocument o n s = .ok (v, s')) : LDoc o s.rest v := by
  unfold rdDocument at h
  split at h
  · cases h
  · rename_i v1 s1 hv
    obtain ⟨w, t, hr, hws, hg⟩ := (rd_sound n).1 _ _ _ _ hv
    split at h
    · cases h
    · rename_i s2 h2
      obtain ⟨w2, hr2, hws2⟩ := skipWs_sound h2
      split at h
      · cases h
      · rename_i hnil
        cases h
        exact ⟨w, t, w2, by rw [hr, hr2, hnil]; simp, hws, hg, hws2⟩


end JsonVerif.Len
