import JsonVerif.Lemmas.Local
import JsonVerif.Lemmas.Conservative
/-!
# An unexpected-character error of the strict parser is reported under every option record

Unexpected-character errors are raised on branches that never consult an option, and before one is
raised the strict run has only taken steps that every record takes identically (`*_mono`).
-/
namespace JsonVerif

theorem strEscU_emono {o : ParseOptions} {bad : Bool} {acc : List Char} {high : Option (Nat × Nat)}
    {r2 : List Char} {pe pos q : Nat} {c : Option Char}
    (h : strEscU strictOpts bad acc high r2 pe pos = .err (.unexpected q c)) :
    strEscU o bad acc high r2 pe pos = .err (.unexpected q c) := by
  rw [strEscU_eq] at h ⊢
  cases h4 : hex4 bad r2 pos with
  | error e => simpa [h4] using h
  | ok v =>
    obtain ⟨cp, r3, pos3⟩ := v
    simp only [h4] at h
    exact absurd h (StrStep.at_not_unexpected (escUK_at strictOpts acc high pe cp pos3 r3))

theorem strEsc_emono {o : ParseOptions} {bad : Bool} {acc : List Char} {high : Option (Nat × Nat)}
    {r : List Char} {pos pn q : Nat} {c : Option Char}
    (h : strEsc strictOpts bad acc high r pos pn = .err (.unexpected q c)) :
    strEsc o bad acc high r pos pn = .err (.unexpected q c) := by
  unfold strEsc at h ⊢
  cases r with
  | nil => exact h
  | cons e r2 =>
    simp only at h ⊢
    by_cases hu : e = 'u'
    · simp only [hu, ↓reduceIte] at h ⊢
      exact strEscU_emono h
    · simp only [hu, ↓reduceIte] at h ⊢
      cases he : esc2 e with
      | none => simpa [he] using h
      | some ch =>
        simp only [he] at h
        exact absurd h (StrStep.at_not_unexpected (flushChar_at _ _ _ _ _ _ _))

theorem strStep_emono {o : ParseOptions} {bad : Bool} {acc : List Char} {high : Option (Nat × Nat)}
    {l : List Char} {pos q : Nat} {c : Option Char}
    (h : strStep strictOpts bad acc high l pos = .err (.unexpected q c)) :
    strStep o bad acc high l pos = .err (.unexpected q c) := by
  unfold strStep at h ⊢
  cases l with
  | nil => exact h
  | cons c0 r0 =>
    simp only at h ⊢
    by_cases hq : c0 = '"'
    · simp only [hq, ↓reduceIte] at h
      cases high with
      | none => simp at h
      | some ph => simp [strictOpts] at h
    · simp only [hq, ↓reduceIte] at h ⊢
      by_cases hb : c0 = '\\'
      · simp only [hb, ↓reduceIte] at h ⊢
        exact strEsc_emono h
      · simp only [hb, ↓reduceIte] at h ⊢
        by_cases hc : isControl c0
        · simpa [hc] using h
        · simp only [hc] at h
          exact absurd h (StrStep.at_not_unexpected (flushChar_at _ _ _ _ _ _ _))

theorem strLoopAux_emono {o : ParseOptions} {bad : Bool} (fuel : List Char) :
    ∀ {acc : List Char} {high : Option (Nat × Nat)} {l : List Char} {pos q : Nat} {c : Option Char},
      strLoopAux strictOpts bad fuel acc high l pos = .error (.unexpected q c) →
      strLoopAux o bad fuel acc high l pos = .error (.unexpected q c) := by
  induction fuel with
  | nil =>
    intro acc high l pos q c h
    rw [strLoopAux] at h ⊢
    split at h
    · cases h
    · rename_i e hs; cases h; rw [strStep_emono hs]
    · cases h
  | cons c0 fuel ih =>
    intro acc high l pos q c h
    rw [strLoopAux] at h ⊢
    split at h
    · cases h
    · rename_i e hs; cases h; rw [strStep_emono hs]
    · rename_i hs; rw [strStep_more_mono hs]; exact ih h

theorem lexString_emono {o : ParseOptions} {s : PS} {q : Nat} {c : Option Char}
    (h : lexString strictOpts s = .error (.unexpected q c)) : lexString o s = .error (.unexpected q c) := by
  unfold lexString at h ⊢
  simp only [PS.beginFragment_fst, PS.beginFragment_snd, beginFragment_rest, beginFragment_pos, beginFragment_bad] at h ⊢
  cases hr : s.rest with
  | nil => simpa [hr] using h
  | cons d r0 =>
    simp only [hr] at h ⊢
    by_cases hd : d = '"'
    · simp only [hd, ↓reduceIte] at h ⊢
      cases hv : strLoop strictOpts s.bad [] none r0 (s.pos + '"'.utf8Size) with
      | error e =>
        simp only [hv, Except.error.injEq] at h
        subst h
        unfold strLoop at hv ⊢
        rw [strLoopAux_emono _ hv]
      | ok v =>
        rw [strLoop_mono hv]
        simpa [hv] using h
    · simpa [hd] using h

theorem lexKeyColon_emono {o : ParseOptions} {s : PS} {q : Nat} {c : Option Char}
    (h : lexKeyColon strictOpts s = .error (.unexpected q c)) : lexKeyColon o s = .error (.unexpected q c) := by
  unfold lexKeyColon at h ⊢
  simp only [PS.beginFragment_fst, PS.beginFragment_snd] at h ⊢
  cases hv : lexString strictOpts s.reserve with
  | error e =>
    simp only [hv, Except.error.injEq] at h
    subst h
    rw [lexString_emono hv]
  | ok v =>
    rw [lexString_mono hv]
    simpa [hv] using h

theorem startObjectKey_emono {o : ParseOptions} {i : Nat} {s : PS} {q : Nat} {c : Option Char}
    (h : startObjectKey strictOpts i s = .error (.unexpected q c)) :
    startObjectKey o i s = .error (.unexpected q c) := by
  unfold startObjectKey at h ⊢
  cases hv : lexKeyColon strictOpts s with
  | error e =>
    simp only [hv, Except.error.injEq] at h
    subst h
    rw [lexKeyColon_emono hv]
  | ok v => simp [hv] at h

theorem startObject_emono {o : ParseOptions} {s : PS} {q : Nat} {c : Option Char}
    (h : startObject strictOpts s = .error (.unexpected q c)) : startObject o s = .error (.unexpected q c) := by
  unfold startObject at h ⊢
  simp only [PS.beginFragment_fst, PS.beginFragment_snd] at h ⊢
  cases h1 : expectChar '{' s.reserve with
  | error e => simpa [h1] using h
  | ok s1 =>
    simp only [h1] at h ⊢
    cases h2 : skipWs s1 with
    | error e => simpa [h2] using h
    | ok s2 =>
      simp only [h2] at h ⊢
      split
      · rename_i d r hr
        simp only [hr] at h
        split
        · rename_i hd; simpa [hd] using h
        · rename_i hd; simp only [hd, ↓reduceIte] at h; exact startObjectKey_emono h
      · rename_i hr
        simp only [hr] at h
        exact startObjectKey_emono h

theorem parseFragment_emono {o : ParseOptions} {ctx : Ctx} {s : PS} {q : Nat} {c : Option Char}
    (h : parseFragment strictOpts ctx s = .error (.unexpected q c)) :
    parseFragment o ctx s = .error (.unexpected q c) := by
  unfold parseFragment at h ⊢
  cases h0 : skipWs s with
  | error e => simpa [h0] using h
  | ok s0 =>
    simp only [h0] at h ⊢
    split
    · rename_i hr; simpa [hr] using h
    · rename_i d r hr
      simp only [hr] at h
      by_cases h_n : d = 'n'
      · rw [if_pos h_n] at h ⊢; exact h
      · rw [if_neg h_n] at h ⊢
        by_cases h_b : (d = 't' || d = 'f') = true
        · rw [if_pos h_b] at h ⊢; exact h
        · rw [if_neg h_b] at h ⊢
          by_cases h_d : (isDigit d || d = '-') = true
          · rw [if_pos h_d] at h ⊢; exact h
          · rw [if_neg h_d] at h ⊢
            by_cases h_q : d = '"'
            · rw [if_pos h_q] at h ⊢
              cases hv : lexString strictOpts s0 with
              | error e =>
                simp only [hv, Except.error.injEq] at h
                subst h
                rw [lexString_emono hv]
              | ok v => simp [hv] at h
            · rw [if_neg h_q] at h ⊢
              by_cases h_a : d = '['
              · rw [if_pos h_a] at h ⊢; exact h
              · rw [if_neg h_a] at h ⊢
                by_cases h_o : d = '{'
                · rw [if_pos h_o] at h ⊢; exact startObject_emono h
                · rw [if_neg h_o] at h ⊢; exact h

theorem contObject_emono {o : ParseOptions} {i : Nat} {s : PS} {q : Nat} {c : Option Char}
    (h : contObject strictOpts i s = .error (.unexpected q c)) : contObject o i s = .error (.unexpected q c) := by
  unfold contObject at h ⊢
  cases h0 : skipWs s with
  | error e => simpa [h0] using h
  | ok s0 =>
    simp only [h0] at h ⊢
    split
    · rename_i hr; simpa [hr] using h
    · rename_i d r hr
      simp only [hr] at h
      by_cases hc : d = ','
      · rw [if_pos hc] at h ⊢
        cases h1 : skipWs (s0.adv d r) with
        | error e => simpa [h1] using h
        | ok s1 =>
          simp only [h1] at h ⊢
          cases hv : lexKeyColon strictOpts s1 with
          | error e =>
            simp only [hv, Except.error.injEq] at h
            subst h
            rw [lexKeyColon_emono hv]
          | ok v => simp [hv] at h
      · rw [if_neg hc] at h ⊢; exact h

theorem run_emono {o : ParseOptions} {stack : List StackItem} {value : Option JValue} {s : PS}
    {q : Nat} {c : Option Char} (h : run strictOpts stack value s = .error (.unexpected q c)) :
    run o stack value s = .error (.unexpected q c) := by
  fun_induction run strictOpts stack value s
  case case1 hws => rw [run]; simp only [hws]; exact h
  case case2 hws c0 tl hr => rw [run]; simp only [hws, hr]; exact h
  case case3 => cases h
  case case4 h1 => cases h; rw [run]; split <;> simp_all [parseFragment_emono h1]
  case case5 h1 ih => rw [run]; split <;> simp_all [parseFragment_mono h1]
  case case6 h1 ih => rw [run]; split <;> simp_all [parseFragment_mono h1]
  case case7 h1 ih => rw [run]; split <;> simp_all [parseFragment_mono h1]
  case case8 h1 => cases h; rw [run]; split <;> simp_all
  case case9 h1 ih => rw [run]; split <;> simp_all
  case case10 h1 ih => rw [run]; split <;> simp_all
  case case11 ih => rw [run]; exact ih h
  case case12 h1 => cases h; rw [run]; split <;> simp_all [parseFragment_emono h1]
  case case13 h1 ih => rw [run]; split <;> simp_all [parseFragment_mono h1]
  case case14 h1 ih => rw [run]; split <;> simp_all [parseFragment_mono h1]
  case case15 h1 ih => rw [run]; split <;> simp_all [parseFragment_mono h1]
  case case16 h1 => cases h; rw [run]; split <;> simp_all [contObject_emono h1]
  case case17 h1 ih => rw [run]; split <;> simp_all [contObject_mono h1]
  case case18 h1 ih => rw [run]; split <;> simp_all [contObject_mono h1]
  case case19 h1 => cases h; have := endFragment_err h1; cases this
  case case20 h1 ih => rw [run]; split <;> simp_all
  case case21 h1 => cases h; rw [run]; split <;> simp_all [parseFragment_emono h1]
  case case22 =>
    cases h
    have := endFragment_err ‹PS.endFragment _ _ = Except.error _›
    cases this
  case case23 ih =>
    have h1 := parseFragment_mono (o := o) ‹parseFragment _ _ _ = _›
    have h2 := ‹PS.endFragment _ _ = _›
    rw [run]
    split
    · simp_all
    · rename_i hv
      rw [h1] at hv; cases hv
      split
      · simp_all
      · rename_i hv2; rw [h2] at hv2; cases hv2; exact ih h
    · simp_all
    · simp_all
  case case24 h1 ih => rw [run]; split <;> simp_all [parseFragment_mono h1]
  case case25 h1 ih => rw [run]; split <;> simp_all [parseFragment_mono h1]

end JsonVerif
