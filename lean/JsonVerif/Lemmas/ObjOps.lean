import JsonVerif.Lemmas.ObjInsert
/-!
# Object operations preserve the invariant and refine the plain-list semantics
(append-side operations: `new`, `push`, `extend`, `from_vec`, `sort`, value mutation)
-/
namespace JsonVerif
open Obj

theorem posMask_congr {S S' : Nat → Bool} {es : List (Key × JValue)} (k : Key)
    (h : ∀ i, i < es.length → S i = S' i) : posMask S k es = posMask S' k es := by
  apply sorted_ext (posMask_sorted _ _ _) (posMask_sorted _ _ _)
  intro i
  simp only [mem_posMask]
  constructor
  · rintro ⟨h1, h2⟩
    have hi : i < es.length := by
      have := mem_posOf.mpr h1; simp [posOf] at this; exact this.1
    exact ⟨h1, by rw [← h i hi]; exact h2⟩
  · rintro ⟨h1, h2⟩
    have hi : i < es.length := by
      have := mem_posOf.mpr h1; simp [posOf] at this; exact this.1
    exact ⟨h1, by rw [h i hi]; exact h2⟩

theorem InvMask.congr {S S' : Nat → Bool} {es : List (Key × JValue)} {bs : List Bucket}
    (h : InvMask S es bs) (hs : ∀ i, i < es.length → S i = S' i) : InvMask S' es bs :=
  ⟨h.nodup, fun b hb => by rw [← posMask_congr b.gkey hs]; exact h.exact b hb,
   fun k hk => h.cover k (by rw [posMask_congr k hs]; exact hk)⟩

theorem keyAt_append_left {es : List (Key × JValue)} {e : Key × JValue} {i : Nat}
    (hi : i < es.length) : keyAt (es ++ [e]) i = keyAt es i := by
  unfold keyAt; rw [List.getElem?_append_left hi]

/-- appending an entry does not disturb the positions below the old length -/
theorem posMask_append {es : List (Key × JValue)} (e : Key × JValue) (k : Key) :
    posMask (fun i => decide (i < es.length)) k (es ++ [e]) = posMask (fun _ => true) k es := by
  apply sorted_ext (posMask_sorted _ _ _) (posMask_sorted _ _ _)
  intro i
  simp only [mem_posMask, decide_eq_true_eq, and_true]
  constructor
  · rintro ⟨h1, h2⟩; rw [keyAt_append_left h2] at h1; exact h1
  · intro h1
    have hi : i < es.length := by
      have := mem_posOf.mpr h1; simp [posOf] at this; exact this.1
    exact ⟨by rw [keyAt_append_left hi]; exact h1, hi⟩

theorem inv_empty : Inv Obj.empty :=
  ⟨by simp [Obj.empty], (by intro b hb; cases hb), (by
    intro k hk; exfalso; apply hk; simp [posMask, posOf, Obj.empty])⟩

/-- **push** (`push`, `push_entry`): never panics, appends, keeps the index exact, and reports
    `true` iff the key was absent. -/
theorem push_inv {o : Obj} (h : Inv o) (k : Key) (v : JValue) :
    ∃ o' fresh, o.push k v = some (o', fresh) ∧ Inv o' ∧ o'.entries = o.entries ++ [(k, v)] ∧
      (fresh = true ↔ posOf k o.entries = []) := by
  have h1 : InvMask (fun i => decide (i < o.entries.length)) (o.entries ++ [(k, v)]) o.buckets :=
    ⟨h.nodup, fun b hb => by rw [posMask_append]; exact h.exact b hb,
     fun k' hk' => h.cover k' (by rw [← posMask_append (k, v)]; exact hk')⟩
  obtain ⟨bs', fresh, k', hk', hins, hinv, hfresh⟩ :=
    indexInsert_inv (j := o.entries.length) h1 (by simp)
  have hkk : k' = k := by
    unfold keyAt at hk'; simp at hk'; exact hk'.symm
  subst hkk
  refine ⟨⟨o.entries ++ [(k', v)], bs'⟩, fresh, ?_, ?_, rfl, ?_⟩
  · unfold Obj.push; simp only [hins]; rfl
  · apply hinv.congr
    intro i hi
    simp only [maskAdd, List.length_append, List.length_cons, List.length_nil] at hi ⊢
    by_cases hlt : i < o.entries.length
    · simp [hlt]
    · have : i = o.entries.length := by omega
      simp [this]
  · rw [hfresh, posMask_append, posMask_true]

/-- bulk index construction, the loop of `from_vec` and `sort` -/
theorem indexInsertRange_inv {es : List (Key × JValue)} :
    ∀ (n i : Nat) (bs : List Bucket), i + n = es.length →
      InvMask (fun j => decide (j < i)) es bs →
      ∃ bs', indexInsertRange es n i bs = some bs' ∧ InvMask (fun _ => true) es bs'
  | 0, i, bs, hlen, h => by
    refine ⟨bs, rfl, h.congr ?_⟩
    intro j hj; simp; omega
  | n + 1, i, bs, hlen, h => by
    obtain ⟨bs1, fresh, k, _, hins, hinv, _⟩ := indexInsert_inv (j := i) h (by omega)
    have hinv' : InvMask (fun j => decide (j < i + 1)) es bs1 := by
      apply hinv.congr
      intro j _
      simp only [maskAdd]
      by_cases h1 : j < i
      · simp [h1]; omega
      · by_cases h2 : j = i
        · simp [h2]
        · have : ¬ j < i + 1 := by omega
          simp [h1, h2, this]
    obtain ⟨bs', hr, hfin⟩ := indexInsertRange_inv n (i + 1) bs1 (by omega) hinv'
    exact ⟨bs', by simp only [indexInsertRange, hins, hr], hfin⟩

/-- **from_vec**: any entry vector gets an exact index. -/
theorem fromVec_inv (es : List (Key × JValue)) :
    ∃ o, Obj.fromVec es = some o ∧ Inv o ∧ o.entries = es := by
  have h0 : InvMask (fun j => decide (j < 0)) es [] :=
    ⟨by simp, (by intro b hb; cases hb), (by
      intro k hk; exfalso; apply hk
      simp [posMask])⟩
  obtain ⟨bs', hr, hinv⟩ := indexInsertRange_inv es.length 0 [] (by simp) h0
  exact ⟨⟨es, bs'⟩, by simp [Obj.fromVec, hr], hinv, rfl⟩

/-- **sort**: entries become the stable (key, value)-sort of the old entries; index exact. -/
theorem sort_inv (o : Obj) :
    ∃ o', o.sort = some o' ∧ Inv o' ∧ o'.entries = sortEntries o.entries :=
  fromVec_inv _

/-- **extend** = repeated push -/
theorem extend_inv : ∀ (l : List (Key × JValue)) {o : Obj}, Inv o →
    ∃ o', o.extend l = some o' ∧ Inv o' ∧ o'.entries = o.entries ++ l
  | [], o, h => ⟨o, rfl, h, by simp⟩
  | (k, v) :: r, o, h => by
    obtain ⟨o1, fresh, hp, hi, he, _⟩ := push_inv h k v
    obtain ⟨o2, hx, hi2, he2⟩ := extend_inv r hi
    exact ⟨o2, by simp only [Obj.extend, hp, hx], hi2, by rw [he2, he]; simp⟩

/-- replacing the *value* of an entry leaves every key position, hence the index, untouched -/
theorem posOf_set_value {es : List (Key × JValue)} {i : Nat} {k : Key} {v : JValue} (k' : Key)
    (hk : keyAt es i = some k) : posOf k' (es.set i (k, v)) = posOf k' es := by
  have hkey : ∀ j, keyAt (es.set i (k, v)) j = keyAt es j := by
    intro j
    unfold keyAt at *
    rw [List.getElem?_set]
    split
    · rename_i h; subst h
      split
      · simp [hk]
      · rename_i hlt
        have : es[i]? = none := by simp; omega
        simp [this] at hk
    · rfl
  unfold posOf
  simp only [List.length_set, hkey]

theorem setValueAt_inv {o : Obj} (h : Inv o) (i : Nat) (v : JValue) : Inv (o.setValueAt i v) := by
  unfold Obj.setValueAt
  cases hi : o.entries[i]? with
  | none => exact h
  | some e =>
    obtain ⟨k, w⟩ := e
    have hk : keyAt o.entries i = some k := by simp [keyAt, hi]
    simp only
    have hp : ∀ k', posMask (fun _ => true) k' (o.entries.set i (k, v)) = posMask (fun _ => true) k' o.entries := by
      intro k'; simp only [posMask_true]; exact posOf_set_value k' hk
    exact ⟨h.nodup, fun b hb => by rw [hp]; exact h.exact b hb, fun k' hk' => h.cover k' (by rw [← hp]; exact hk')⟩

end JsonVerif
