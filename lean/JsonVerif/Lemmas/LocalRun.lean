import JsonVerif.Lemmas.Local
/-!
# Locality of the whole machine: an unexpected-character error inside a prefix is the same whatever follows
-/
namespace JsonVerif

theorem run_local_err {o : ParseOptions} {x : List Char} {q : Nat} {c : Char} (y : List Char)
    (stack : List StackItem) (value : Option JValue) (s : PS) :
    ∀ (l : List Char), s.rest = l ++ x → run o stack value s = .error (.unexpected q (some c)) →
      q < s.pos + utf8Len l → run o stack value (s.re (l ++ y)) = .error (.unexpected q (some c)) := by
  fun_induction run o stack value s
  case case1 hws =>
    intro l hs h hlt
    cases h
    exact absurd hws skipWs_no_unexpected
  case case2 s1 hws c0 tl hr =>
    intro l hs h hlt
    simp only [Except.error.injEq, PErr.unexpected.injEq, Option.some.injEq] at h
    obtain ⟨rfl, rfl⟩ := h
    obtain ⟨r, hr1, hy⟩ := skipWs_local hs hws hlt
    rw [run]
    simp only [hy y, PS.re_rest]
    have bb := local_bound (skipWs_adv hws) hs hr1
    obtain ⟨d, r', rfl⟩ := head_of_lt hr1 bb hlt
    rw [hr] at hr1
    simp only [List.cons_append, List.cons.injEq] at hr1
    obtain ⟨rfl, _⟩ := hr1
    simp
  case case3 => intro l hs h hlt; cases h
  case case4 h1 =>
    intro l hs h hlt
    simp only [Except.error.injEq] at h
    subst h
    have := parseFragment_local_err hs h1 hlt y
    rw [run]
    split <;> simp_all
  case case5 v s' h1 ih =>
    intro l hs h hlt
    have hq := (run_err h).pos_le
    obtain ⟨r, hr, hy⟩ := parseFragment_local hs h1 (by omega)
    have bb := local_bound (parseFragment_adv h1) hs hr
    have := ih r hr h (by omega)
    rw [run]
    split <;> simp_all
  case case6 h1 ih =>
    intro l hs h hlt
    have hq := (run_err h).pos_le
    obtain ⟨r, hr, hy⟩ := parseFragment_local hs h1 (by omega)
    have bb := local_bound (parseFragment_adv h1) hs hr
    have := ih r hr h (by omega)
    rw [run]
    split <;> simp_all
  case case7 h1 ih =>
    intro l hs h hlt
    have hq := (run_err h).pos_le
    obtain ⟨r, hr, hy⟩ := parseFragment_local hs h1 (by omega)
    have bb := local_bound (parseFragment_adv h1) hs hr
    have := ih r hr h (by omega)
    rw [run]
    split <;> simp_all
  case case8 h1 =>
    intro l hs h hlt
    simp only [Except.error.injEq] at h
    subst h
    have := contArray_local_err hs h1 hlt y
    rw [run]
    split <;> simp_all
  case case9 h1 ih =>
    intro l hs h hlt
    have hq := (run_err h).pos_le
    obtain ⟨r, hr, hy⟩ := contArray_local hs h1 (by omega)
    have bb := local_bound (contArray_adv h1) hs hr
    have := ih r hr h (by omega)
    rw [run]
    split <;> simp_all
  case case10 h1 ih =>
    intro l hs h hlt
    have hq := (run_err h).pos_le
    obtain ⟨r, hr, hy⟩ := contArray_local hs h1 (by omega)
    have bb := local_bound (contArray_adv h1) hs hr
    have := ih r hr h (by omega)
    rw [run]
    split <;> simp_all
  case case11 ih =>
    intro l hs h hlt
    have := ih l hs h hlt
    rw [run]
    exact this
  case case12 h1 =>
    intro l hs h hlt
    simp only [Except.error.injEq] at h
    subst h
    have := parseFragment_local_err hs h1 hlt y
    rw [run]
    split <;> simp_all
  case case13 h1 ih =>
    intro l hs h hlt
    have hq := (run_err h).pos_le
    obtain ⟨r, hr, hy⟩ := parseFragment_local hs h1 (by omega)
    have bb := local_bound (parseFragment_adv h1) hs hr
    have := ih r hr h (by omega)
    rw [run]
    split <;> simp_all
  case case14 h1 ih =>
    intro l hs h hlt
    have hq := (run_err h).pos_le
    obtain ⟨r, hr, hy⟩ := parseFragment_local hs h1 (by omega)
    have bb := local_bound (parseFragment_adv h1) hs hr
    have := ih r hr h (by omega)
    rw [run]
    split <;> simp_all
  case case15 h1 ih =>
    intro l hs h hlt
    have hq := (run_err h).pos_le
    obtain ⟨r, hr, hy⟩ := parseFragment_local hs h1 (by omega)
    have bb := local_bound (parseFragment_adv h1) hs hr
    have := ih r hr h (by omega)
    rw [run]
    split <;> simp_all
  case case16 h1 =>
    intro l hs h hlt
    simp only [Except.error.injEq] at h
    subst h
    have := contObject_local_err hs h1 hlt y
    rw [run]
    split <;> simp_all
  case case17 h1 ih =>
    intro l hs h hlt
    have hq := (run_err h).pos_le
    obtain ⟨r, hr, hy⟩ := contObject_local hs h1 (by omega)
    have bb := local_bound (contObject_adv h1) hs hr
    have := ih r hr h (by omega)
    rw [run]
    split <;> simp_all
  case case18 h1 ih =>
    intro l hs h hlt
    have hq := (run_err h).pos_le
    obtain ⟨r, hr, hy⟩ := contObject_local hs h1 (by omega)
    have bb := local_bound (contObject_adv h1) hs hr
    have := ih r hr h (by omega)
    rw [run]
    split <;> simp_all
  case case19 h1 =>
    intro l hs h hlt
    simp only [Except.error.injEq] at h
    have := endFragment_err h1
    subst h; cases this
  case case20 s' h1 ih =>
    intro l hs h hlt
    obtain ⟨e1, e2, _⟩ := endFragment_rest h1
    have := ih l (by rw [e1]; exact hs) h (by rw [e2]; exact hlt)
    have h1' := endFragment_re h1 (l ++ y)
    rw [run]
    split <;> simp_all
  case case21 h1 =>
    intro l hs h hlt
    simp only [Except.error.injEq] at h
    subst h
    have := parseFragment_local_err hs h1 hlt y
    rw [run]
    split <;> simp_all
  case case22 =>
    intro l hs h hlt
    simp only [Except.error.injEq] at h
    have := endFragment_err ‹PS.endFragment _ _ = Except.error _›
    subst h; cases this
  case case23 ih =>
    intro l hs h hlt
    have h1 := ‹parseFragment _ _ _ = _›
    have h2 := ‹PS.endFragment _ _ = _›
    have hq := (run_err h).pos_le
    obtain ⟨e1, e2, _⟩ := endFragment_rest h2
    obtain ⟨r, hr, hy⟩ := parseFragment_local hs h1 (by omega)
    have bb := local_bound (parseFragment_adv h1) hs hr
    have := ih r (by rw [e1]; exact hr) h (by omega)
    have h2' := endFragment_re h2 (r ++ y)
    rw [run]
    split <;> simp_all <;> (split <;> simp_all)
  case case24 h1 ih =>
    intro l hs h hlt
    have hq := (run_err h).pos_le
    obtain ⟨r, hr, hy⟩ := parseFragment_local hs h1 (by omega)
    have bb := local_bound (parseFragment_adv h1) hs hr
    have := ih r hr h (by omega)
    rw [run]
    split <;> simp_all
  case case25 h1 ih =>
    intro l hs h hlt
    have hq := (run_err h).pos_le
    obtain ⟨r, hr, hy⟩ := parseFragment_local hs h1 (by omega)
    have bb := local_bound (parseFragment_adv h1) hs hr
    have := ih r hr h (by omega)
    rw [run]
    split <;> simp_all

end JsonVerif
