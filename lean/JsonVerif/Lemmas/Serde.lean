import JsonVerif.Model.Serde
/-! # Serializing a `Value` with the crate's own serializer reproduces it (C17) -/
namespace JsonVerif

/-- what the serializer does to a number: plain 64-bit integer literals are re-rendered from the
    integer (`-0` ↦ `0`), everything else keeps its spelling -/
def numNorm (n : List Char) : List Char :=
  if n.contains '.' then n
  else match asI64 n with
    | .some i => intText i
    | .none => match asU64 n with
      | .some u => natText u
      | .none => n

mutual
def mapNumbers (f : List Char → List Char) : JValue → JValue
  | .number n => .number (f n)
  | .array xs => .array (mapNumbersL f xs)
  | .object es => .object (mapNumbersM f es)
  | v => v
def mapNumbersL (f : List Char → List Char) : List JValue → List JValue
  | [] => []
  | x :: xs => mapNumbers f x :: mapNumbersL f xs
def mapNumbersM (f : List Char → List Char) : List (List Char × JValue) → List (List Char × JValue)
  | [] => []
  | (k, x) :: es => (k, mapNumbers f x) :: mapNumbersM f es
end

-- side conditions of the round trip
mutual
/-- numbers are JSON numbers; no object has duplicate keys; no key is the private number token -/
def Plain : JValue → Prop
  | .number n => numberOk n = true
  | .array xs => PlainL xs
  | .object es => PlainM es ∧ (es.map (·.1)).Nodup ∧ numberToken ∉ es.map (·.1)
  | _ => True
def PlainL : List JValue → Prop
  | [] => True
  | x :: xs => Plain x ∧ PlainL xs
def PlainM : List (List Char × JValue) → Prop
  | [] => True
  | (_, x) :: es => Plain x ∧ PlainM es
end

theorem listInsert_fresh (es : List (List Char × JValue)) (k : List Char) (v : JValue)
    (h : k ∉ es.map (·.1)) : listInsert es k v = es ++ [(k, v)] := by
  have : es.any (fun e => e.1 == k) = false := by
    rw [List.any_eq_false]
    intro e he hk
    simp only [beq_iff_eq] at hk
    exact h (List.mem_map.mpr ⟨e, he, hk⟩)
  simp only [listInsert, this, Bool.false_eq_true, ↓reduceIte]

theorem numberData_ser {n : List Char} (hn : numberOk n = true) :
    ∃ d, numberData n = .ok d ∧ ser d = .ok (.number (numNorm n)) := by
  unfold numberData numNorm
  by_cases hd : n.contains '.' = true
  · simp only [hd, ↓reduceIte]
    refine ⟨_, rfl, ?_⟩
    simp only [ser, serFields, serStrNum, hn, List.isEmpty_nil, beq_self_eq_true, Bool.and_self, ↓reduceIte]
  · simp only [hd]
    cases h1 : asI64 n with
    | some i => exact ⟨_, rfl, by simp [ser]⟩
    | none =>
      cases h2 : asU64 n with
      | some u => exact ⟨_, rfl, by simp [ser]⟩
      | none =>
        refine ⟨_, rfl, ?_⟩
        simp only [ser, serFields, serStrNum, hn, List.isEmpty_nil, beq_self_eq_true, Bool.and_self, ↓reduceIte]
        simp

mutual
theorem valueData_ser : ∀ (v : JValue), Plain v →
    ∃ d, valueData v = .ok d ∧ ser d = .ok (mapNumbers numNorm v)
  | .null, _ => ⟨_, rfl, rfl⟩
  | .bool _, _ => ⟨_, rfl, rfl⟩
  | .number n, h => by
    obtain ⟨d, h1, h2⟩ := numberData_ser h
    exact ⟨d, by simp [valueData, h1], by simpa [mapNumbers] using h2⟩
  | .string _, _ => ⟨_, rfl, rfl⟩
  | .array xs, h => by
    obtain ⟨l, h1, h2⟩ := valueDataL_ser xs h
    exact ⟨.seq l, by simp [valueData, h1], by simp [ser, h2, mapNumbers]⟩
  | .object es, h => by
    obtain ⟨l, h1, h2⟩ := valueDataM_ser es [] h.1 (by simpa using h.2.1) (by simpa using h.2.2)
    exact ⟨.map l, by simp [valueData, h1], by simpa [ser, mapNumbers] using h2⟩
theorem valueDataL_ser : ∀ (xs : List JValue), PlainL xs →
    ∃ l, valueDataL xs = .ok l ∧ serL l = .ok (mapNumbersL numNorm xs)
  | [], _ => ⟨[], rfl, rfl⟩
  | x :: xs, h => by
    obtain ⟨d, h1, h2⟩ := valueData_ser x h.1
    obtain ⟨l, h3, h4⟩ := valueDataL_ser xs h.2
    exact ⟨d :: l, by simp [valueDataL, h1, h3], by simp [serL, h2, h4, mapNumbersL]⟩
/-- the map loop: `acc` = entries already inserted -/
theorem valueDataM_ser : ∀ (es acc : List (List Char × JValue)), PlainM es →
    ((acc ++ es).map (·.1)).Nodup → numberToken ∉ (acc ++ es).map (·.1) →
    ∃ l, valueDataM es = .ok l ∧ serMap l (.object acc) = .ok (.object (acc ++ mapNumbersM numNorm es))
  | [], acc, _, _, _ => ⟨[], rfl, by simp [serMap, mapNumbersM]⟩
  | (k, x) :: es, acc, h, hnd, hnt => by
    obtain ⟨d, h1, h2⟩ := valueData_ser x h.1
    have hk : k ∉ acc.map (·.1) := by
      simp only [List.map_append, List.map_cons] at hnd
      have := (List.nodup_append.mp hnd).2.2
      intro hk
      exact this k hk k (by simp) rfl
    have hkt : k ≠ numberToken := by
      intro e; apply hnt; simp [e]
    have hnd' : (((acc ++ [(k, mapNumbers numNorm x)]) ++ es).map (·.1)).Nodup := by
      simpa using hnd
    have hnt' : numberToken ∉ ((acc ++ [(k, mapNumbers numNorm x)]) ++ es).map (·.1) := by
      simpa using hnt
    obtain ⟨l, h3, h4⟩ := valueDataM_ser es (acc ++ [(k, mapNumbers numNorm x)]) h.2 hnd' hnt'
    refine ⟨(.str k, d) :: l, by simp [valueDataM, h1, h3], ?_⟩
    simp only [serMap, serKey]
    have : (acc.isEmpty && k == numberToken) = false := by simp [hkt]
    rw [this]
    simp only [Bool.false_eq_true, ↓reduceIte, h2, listInsert_fresh acc k _ hk, h4, mapNumbersM]
    simp
end

/-- **`to_value(&value)` reproduces the value** (same structure, strings, key order, number
    spellings up to the re-rendering of plain 64-bit integer literals). -/
theorem toValue_plain (v : JValue) (h : Plain v) : toValue v = .ok (mapNumbers numNorm v) := by
  obtain ⟨d, h1, h2⟩ := valueData_ser v h
  simp [toValue, h1, h2]

end JsonVerif
