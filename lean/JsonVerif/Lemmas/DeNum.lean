import JsonVerif.Model.De
import Std.Data.String.ToNat
import Std.Data.String.ToInt
/-!
# Integers through text: printing (`to_string`) then parsing (`str::parse`, json-number's `as_u64` /
`as_i64`) gives the integer back
-/
namespace JsonVerif

theorem natText_eq (n : Nat) : natText n = Nat.toDigits 10 n := by
  simp [natText]

theorem ofList_natText (n : Nat) : String.ofList (natText n) = n.repr := by
  rw [natText_eq]; exact Nat.repr_eq_ofList_toDigits.symm

theorem intText_ofNat (n : Nat) : intText (Int.ofNat n) = natText n := by
  simp [intText, natText, Int.repr]

theorem intText_negSucc (m : Nat) : intText (Int.negSucc m) = '-' :: natText (m + 1) := by
  simp [intText, natText, Int.repr]

theorem asU64_natText (n : Nat) (h : n < 2 ^ 64) : asU64 (natText n) = some n := by
  unfold asU64
  rw [ofList_natText, Nat.toNat?_repr]
  simp [h]

theorem asI64_natText (n : Nat) (h : (n : Int) < 2 ^ 63) : asI64 (natText n) = some (n : Int) := by
  unfold asI64
  rw [ofList_natText]
  have : n.repr.toInt? = some (n : Int) := String.toInt?_eq_some_iff.2 (Or.inl ⟨n, Nat.toNat?_repr n, rfl⟩)
  rw [this]
  simp only [Option.some.injEq]
  rw [if_pos (by omega)]

theorem minus_not_nat (t : List Char) : (String.ofList ('-' :: t)).toNat? = none := by
  rw [String.toNat?_eq_none_iff]
  cases hb : (String.ofList ('-' :: t)).isNat with
  | false => rfl
  | true =>
    have := (String.isNat_iff.1 hb).2.1 '-' (by simp)
    simp at this

theorem asU64_neg (m : Nat) : asU64 (intText (Int.negSucc m)) = none := by
  unfold asU64
  rw [intText_negSucc, minus_not_nat]

theorem asI64_neg (m : Nat) (h : -(2 ^ 63 : Int) ≤ Int.negSucc m) :
    asI64 (intText (Int.negSucc m)) = some (Int.negSucc m) := by
  unfold asI64
  rw [intText_negSucc]
  have : (String.ofList ('-' :: natText (m + 1))).toInt? = some (Int.negSucc m) := by
    apply String.toInt?_eq_some_iff.2
    refine Or.inr ⟨(m + 1).repr, ?_, m + 1, Nat.toNat?_repr _, ?_⟩
    · rw [← ofList_natText]
      apply String.toList_inj.1
      simp
    · omega
  rw [this]
  simp only [Option.some.injEq]
  rw [if_pos (by omega)]

/-- json-number's `deserialize_any` on the text of a non-negative integer below 2^64 -/
theorem numEvent_natText (n : Nat) (h : n < 2 ^ 64) : numEvent (natText n) = .u64 n := by
  simp [numEvent, asU64_natText n h]

theorem numEvent_neg (m : Nat) (h : -(2 ^ 63 : Int) ≤ Int.negSucc m) :
    numEvent (intText (Int.negSucc m)) = .i64 (Int.negSucc m) := by
  simp [numEvent, asU64_neg, asI64_neg m h]

/-! ## Rust's `str::parse` on the decimal text -/

theorem parseNatR_natText (n : Nat) : parseNatR (natText n) = some n := by
  rw [natText_eq]
  unfold parseNatR
  have h1 : (Nat.toDigits 10 n).isEmpty = false := by
    cases h : Nat.toDigits 10 n with
    | nil => exact absurd h Nat.toDigits_ne_nil
    | cons _ _ => rfl
  have h2 : (Nat.toDigits 10 n).all Char.isDigit = true := by
    rw [List.all_eq_true]
    intro c hc
    exact Nat.isDigit_of_mem_toDigits (by omega) (by omega) hc
  simp [h1, h2, Nat.ofDigitChars_ten_toDigits]

theorem natText_head_digit (n : Nat) : ∃ c r, natText n = c :: r ∧ c.isDigit = true := by
  rw [natText_eq]
  cases h : Nat.toDigits 10 n with
  | nil => exact absurd h Nat.toDigits_ne_nil
  | cons c r =>
    refine ⟨c, r, rfl, ?_⟩
    exact Nat.isDigit_of_mem_toDigits (b := 10) (n := n) (by omega) (by omega) (by rw [h]; simp)

theorem parseIntR_natText (s : Bool) (n : Nat) : parseIntR s (natText n) = some (n : Int) := by
  obtain ⟨c, r, h, hc⟩ := natText_head_digit n
  have hp := parseNatR_natText n
  rw [h] at hp ⊢
  have h1 : c ≠ '+' := by intro e; rw [e] at hc; simp at hc
  have h2 : c ≠ '-' := by intro e; rw [e] at hc; simp at hc
  unfold parseIntR
  split
  · rename_i heq; simp at heq; exact absurd heq.1 h1
  · rename_i heq; simp at heq; exact absurd heq.1 h2
  · simp [hp]

theorem parseIntR_neg (m : Nat) : parseIntR true (intText (Int.negSucc m)) = some (Int.negSucc m) := by
  rw [intText_negSucc]
  simp only [parseIntR, ↓reduceIte, parseNatR_natText]
  simp [Int.negSucc_eq]

end JsonVerif
