import JsonVerif.Lemmas.Serde
import JsonVerif.Spec.HasTy
/-!
# Loop lemmas for the round trip: the map / struct serializers build the entry list in order, the
derive-style struct visitor fills its slots in order
-/
namespace JsonVerif

/-- `SerializeStruct`: distinct names, none the number token -/
theorem serFields_typed : ∀ (l : List (List Char × SData)) (vs : List JValue)
    (acc : List (List Char × JValue)),
    l.map (fun f => ser f.2) = vs.map Except.ok → ((acc.map (·.1)) ++ l.map (·.1)).Nodup →
    numberToken ∉ l.map (·.1) →
    serFields l (.object acc) = .ok (.object (acc ++ (l.map (·.1)).zip vs)) := by
  intro fs
  induction fs with
  | nil => intro vs acc _ _ _; simp [serFields]
  | cons f fs ih =>
    intro vs acc hv hnd hnt
    obtain ⟨k, d⟩ := f
    cases vs with
    | nil => simp at hv
    | cons x vs =>
      simp only [List.map_cons, List.cons.injEq] at hv
      have hk : k ≠ numberToken := by intro e; apply hnt; simp [e]
      have hfresh : k ∉ acc.map (·.1) := by
        have := (List.nodup_append.mp hnd).2.2
        intro hk'; exact this k hk' k (by simp) rfl
      have hcond : (acc.isEmpty && k == numberToken) = false := by simp [hk]
      simp only [serFields, hcond, Bool.false_eq_true, ↓reduceIte, hv.1, listInsert_fresh acc k x hfresh]
      rw [ih vs (acc ++ [(k, x)]) hv.2 (by simpa using hnd) (by intro h; apply hnt; simp [h])]
      simp

/-- `SerializeStructVariant`: distinct names -/
theorem serFieldsPlain_typed : ∀ (l : List (List Char × SData)) (vs : List JValue)
    (acc : List (List Char × JValue)),
    l.map (fun f => ser f.2) = vs.map Except.ok → ((acc.map (·.1)) ++ l.map (·.1)).Nodup →
    serFieldsPlain l acc = .ok (acc ++ (l.map (·.1)).zip vs) := by
  intro fs
  induction fs with
  | nil => intro vs acc _ _; simp [serFieldsPlain]
  | cons f fs ih =>
    intro vs acc hv hnd
    obtain ⟨k, d⟩ := f
    cases vs with
    | nil => simp at hv
    | cons x vs =>
      simp only [List.map_cons, List.cons.injEq] at hv
      have hfresh : k ∉ acc.map (·.1) := by
        have := (List.nodup_append.mp hnd).2.2
        intro hk'; exact this k hk' k (by simp) rfl
      simp only [serFieldsPlain, hv.1, listInsert_fresh acc k x hfresh]
      rw [ih vs (acc ++ [(k, x)]) hv.2 (by simpa using hnd)]
      simp

/-- `SerializeMap`: keys spelled `ns` (distinct, none the number token), values `vs` -/
theorem serMap_typed : ∀ (l : List (SData × SData)) (ns : List (List Char)) (vs : List JValue)
    (acc : List (List Char × JValue)),
    l.map (fun e => serKey e.1) = ns.map Except.ok → l.map (fun e => ser e.2) = vs.map Except.ok →
    ((acc.map (·.1)) ++ ns).Nodup → numberToken ∉ ns →
    serMap l (.object acc) = .ok (.object (acc ++ ns.zip vs)) := by
  intro l
  induction l with
  | nil =>
    intro ns vs acc hk _ _ _
    cases ns with
    | nil => simp [serMap]
    | cons _ _ => simp at hk
  | cons e l ih =>
    intro ns vs acc hk hv hnd hnt
    obtain ⟨kd, d⟩ := e
    cases ns with
    | nil => simp at hk
    | cons n ns =>
      cases vs with
      | nil => simp at hv
      | cons x vs =>
        simp only [List.map_cons, List.cons.injEq] at hk hv
        have hn : n ≠ numberToken := by intro e; apply hnt; simp [e]
        have hfresh : n ∉ acc.map (·.1) := by
          have := (List.nodup_append.mp hnd).2.2
          intro hk'; exact this n hk' n (by simp) rfl
        have hcond : (acc.isEmpty && n == numberToken) = false := by simp [hn]
        simp only [serMap, hk.1, hcond, Bool.false_eq_true, ↓reduceIte, hv.1, listInsert_fresh acc n x hfresh]
        rw [ih ns vs (acc ++ [(n, x)]) hk.2 hv.2 (by simpa using hnd) (by intro h; apply hnt; simp [h])]
        simp

theorem mapE_ok {α β : Type} (f : α → Except DeErr β) : ∀ (xs : List α) (ys : List β),
    xs.map f = ys.map Except.ok → mapE f xs = .ok ys := by
  intro xs
  induction xs with
  | nil => intro ys h; cases ys with
    | nil => rfl
    | cons _ _ => simp at h
  | cons x xs ih =>
    intro ys h
    cases ys with
    | nil => simp at h
    | cons y ys =>
      simp only [List.map_cons, List.cons.injEq] at h
      simp [mapE, h.1, ih ys h.2]

/-- the fields' values deserialize to the data, position by position -/
def DeFields (env : FEnv) : List (List Char × DTy) → List (List Char × JValue) → List SData → Prop
  | [], es, xs => es = [] ∧ xs = []
  | (n, t) :: fs, es, xs => ∃ v es' x xs', es = (n, v) :: es' ∧ xs = x :: xs' ∧ de env t v = .ok x ∧
      DeFields env fs es' xs'

/-- field lookup by name finds the field's own index -/
theorem deField_at (env : FEnv) : ∀ (pre : List (List Char × DTy)) (n : List Char) (t : DTy)
    (post : List (List Char × DTy)) (i : Nat) (v : JValue), n ∉ pre.map (·.1) →
    deField env (pre ++ (n, t) :: post) i n v = some (i + pre.length, de env t v) := by
  intro pre
  induction pre with
  | nil => intro n t post i v _; simp [deField]
  | cons p pre ih =>
    intro n t post i v hn
    obtain ⟨m, s⟩ := p
    have hm : (m == n) = false := by
      simp only [List.map_cons, List.mem_cons, not_or] at hn
      simp; intro e; exact hn.1 e.symm
    simp only [List.cons_append, deField, hm, Bool.false_eq_true, ↓reduceIte]
    rw [ih n t post (i + 1) v (by intro h; apply hn; simp [h])]
    simp; omega

/-- serde-derive's struct `visit_map` on the entries the struct serializer wrote -/
theorem fillSlots_typed (env : FEnv) (fs : List (List Char × DTy)) (hnd : (fs.map (·.1)).Nodup) :
    ∀ (post pre : List (List Char × DTy)) (es : List (List Char × JValue)) (xs : List SData)
      (done : List (Option SData)),
    fs = pre ++ post → done.length = pre.length → DeFields env post es xs →
    fillSlots (deField env fs 0) es (done ++ post.map (fun _ => none)) = .ok (done ++ xs.map some) := by
  intro post
  induction post with
  | nil =>
    intro pre es xs done _ _ h
    obtain ⟨rfl, rfl⟩ := h
    simp [fillSlots]
  | cons f post ih =>
    intro pre es xs done hfs hlen h
    obtain ⟨n, t⟩ := f
    obtain ⟨v, es', x, xs', rfl, rfl, hde, hrest⟩ := h
    have hn : n ∉ pre.map (·.1) := by
      rw [hfs] at hnd
      simp only [List.map_append, List.map_cons] at hnd
      have := (List.nodup_append.mp hnd).2.2
      intro hk; exact this n hk n (by simp) rfl
    have hlook : deField env fs 0 n v = some (pre.length, de env t v) := by
      rw [hfs, deField_at env pre n t post 0 v hn]; simp
    have hslot : (done ++ List.map (fun _ => (none : Option SData)) ((n, t) :: post))[pre.length]? = some none := by
      rw [List.getElem?_append_right (by omega)]
      simp [hlen]
    have hset : (done ++ List.map (fun _ => (none : Option SData)) ((n, t) :: post)).set pre.length (some x)
        = (done ++ [some x]) ++ post.map (fun _ => none) := by
      rw [List.set_append_right _ _ (by omega)]
      simp [hlen]
    simp only [fillSlots, hlook, hslot, hde, hset]
    rw [ih (pre ++ [(n, t)]) es' xs' (done ++ [some x]) (by simp [hfs]) (by simp [hlen]) hrest]
    simp

theorem closeSlots_typed : ∀ (fs : List (List Char × DTy)) (xs : List SData), fs.length = xs.length →
    closeSlots fs (xs.map some) = .ok ((fs.map (·.1)).zip xs) := by
  intro fs
  induction fs with
  | nil => intro xs _; simp [closeSlots]
  | cons f fs ih =>
    intro xs h
    obtain ⟨n, t⟩ := f
    cases xs with
    | nil => simp at h
    | cons x xs =>
      simp only [List.length_cons, Nat.add_right_cancel_iff] at h
      simp [closeSlots, ih xs h]

theorem DeFields.length (env : FEnv) : ∀ (fs : List (List Char × DTy)) (es : List (List Char × JValue))
    (xs : List SData), DeFields env fs es xs → fs.length = xs.length := by
  intro fs
  induction fs with
  | nil => intro es xs h; obtain ⟨_, rfl⟩ := h; rfl
  | cons f fs ih =>
    intro es xs h
    obtain ⟨n, t⟩ := f
    obtain ⟨v, es', x, xs', rfl, rfl, _, hrest⟩ := h
    simp [ih es' xs' hrest]

/-- the whole struct visitor -/
theorem structVisit_typed (env : FEnv) (fs : List (List Char × DTy)) (hnd : (fs.map (·.1)).Nodup)
    (es : List (List Char × JValue)) (xs : List SData) (h : DeFields env fs es xs) :
    fillSlots (deField env fs 0) es (fs.map (fun _ => none)) = .ok (xs.map some) ∧
    closeSlots fs (xs.map some) = .ok ((fs.map (·.1)).zip xs) := by
  have := fillSlots_typed env fs hnd fs [] es xs [] rfl rfl h
  simp only [List.nil_append] at this
  exact ⟨this, closeSlots_typed fs xs (DeFields.length env fs es xs h)⟩

end JsonVerif
