import JsonVerif.Lemmas.MachineRD
import JsonVerif.Lemmas.GramComplete
import JsonVerif.Lemmas.PrintGram
import JsonVerif.Lemmas.Conservative
import JsonVerif.Model.Entry
/-!
# Hub theorems: the parser of src/parse (as modelled) decides RFC 8259, and returns the content

* `parse_sound`     accepted ⇒ the text is a JSON-text and the value is its content
* `parse_complete`  JSON-text with content `v` ⇒ accepted with exactly `v` (any option record)
* `gdoc_unique`     a text has at most one content
* `print_parse`     printing under any option record and re-parsing gives the value back
-/
namespace JsonVerif

theorem so_eq : so = strictOpts := rfl

theorem parse_sound {cs : List Char} {v : JValue} {cm : List CMEntry}
    (h : parseChars so cs false = .ok (v, cm)) : GDoc cs v := by
  unfold parseChars at h
  split at h
  · cases h
  · rename_i v' s' hr
    cases h
    rw [machine_eq_rd] at hr
    exact rdDocument_sound hr

theorem parse_complete_strict {cs : List Char} {v : JValue} (h : GDoc cs v) :
    ∃ cm, parseChars so cs false = .ok (v, cm) := by
  obtain ⟨s', hs'⟩ := rdDocument_complete h { rest := cs, bad := false, pos := 0, cm := #[] } rfl rfl
    (2 * cs.length + 1) (Nat.le_refl _)
  refine ⟨s'.cm.toList, ?_⟩
  unfold parseChars
  rw [machine_eq_rd]
  simp only [hs']

/-- … and the lenient options change nothing on a valid text (they are a conservative extension) -/
theorem parse_complete (o : ParseOptions) {cs : List Char} {v : JValue} (h : GDoc cs v) :
    ∃ cm, parseChars o cs false = .ok (v, cm) := by
  obtain ⟨cm, hc⟩ := parse_complete_strict h
  refine ⟨cm, ?_⟩
  unfold parseChars at hc ⊢
  split at hc
  · cases hc
  · rename_i v' s' hr
    rw [so_eq] at hr
    rw [run_mono (o := o) hr]
    exact hc

/-- the grammar is unambiguous as far as content goes -/
theorem gdoc_unique {cs : List Char} {v v' : JValue} (h : GDoc cs v) (h' : GDoc cs v') : v = v' := by
  obtain ⟨cm, hc⟩ := parse_complete_strict h
  obtain ⟨cm', hc'⟩ := parse_complete_strict h'
  rw [hc] at hc'
  cases hc'; rfl

/-- acceptance by the strict parser is membership in the grammar -/
theorem accepts_iff (cs : List Char) :
    (∃ r, parseChars so cs false = .ok r) ↔ ∃ v, GDoc cs v := by
  constructor
  · rintro ⟨⟨v, cm⟩, h⟩; exact ⟨v, parse_sound h⟩
  · rintro ⟨v, h⟩; obtain ⟨cm, hc⟩ := parse_complete_strict h; exact ⟨_, hc⟩

/-- **Round trip**: whatever the print options, indentation and parse options -/
theorem print_parse (po : PrintOptions) (ind : Nat) (o : ParseOptions) {v : JValue} (hn : NumsOk v) :
    ∃ t cm, printWith po ind v = some t ∧ parseChars o t false = .ok (v, cm) := by
  have hg : GDoc (specPrint po ind v) v := interleave_gdoc hn (spec_interleave po v ind)
  obtain ⟨cm, hc⟩ := parse_complete o hg
  exact ⟨_, cm, printer_eq_spec po v ind, hc⟩

end JsonVerif
