import JsonVerif.Lemmas.ErrAt
/-!
# Locality: what the parser does before it has looked past a prefix does not depend on what follows

`s.re r` is the state `s` with its unread input replaced by `r`. For every lexical function `f`:
if the unread input is `l ++ x` and `f` stops (successfully, or with an unexpected-character error)
strictly inside `l`, then on the unread input `l ++ y` it stops in the same way, for every `y`.
This is the single-pass / one-character-lookahead discipline of the parser as a theorem; C07's
"no longer prefix is viable" rests on it.
-/
namespace JsonVerif

/-- the same state with another unread input -/
def PS.re (s : PS) (r : List Char) : PS := { s with rest := r }

@[simp] theorem PS.re_rest (s : PS) (r : List Char) : (s.re r).rest = r := rfl
@[simp] theorem PS.re_pos (s : PS) (r : List Char) : (s.re r).pos = s.pos := rfl
@[simp] theorem PS.re_bad (s : PS) (r : List Char) : (s.re r).bad = s.bad := rfl
@[simp] theorem PS.re_cm (s : PS) (r : List Char) : (s.re r).cm = s.cm := rfl
@[simp] theorem PS.re_re (s : PS) (r r' : List Char) : (s.re r).re r' = s.re r' := rfl
theorem PS.re_self (s : PS) : s.re s.rest = s := rfl
@[simp] theorem PS.reserve_re (s : PS) (r : List Char) : (s.re r).reserve = s.reserve.re r := rfl
@[simp] theorem PS.adv_re (s : PS) (c : Char) (r r' : List Char) : (s.re r').adv c r = s.adv c r := rfl

theorem endFragment_re {s : PS} {i : Nat} {s' : PS} (h : s.endFragment i = .ok s') (r : List Char) :
    (s.re r).endFragment i = .ok (s'.re r) := by
  cases hh : s.cm[i]? with
  | none => simp [PS.endFragment, hh] at h
  | some e =>
    simp only [PS.endFragment, hh, Except.ok.injEq] at h
    subst h
    simp [PS.endFragment, PS.re, hh]

theorem utf8Size_pos (c : Char) : 0 < c.utf8Size := by
  have := Char.utf8Size_pos c; omega

/-- two ways of cutting the same input: the one that consumed fewer bytes is a proper prefix -/
theorem split_of_lt {l x w t : List Char} (h : l ++ x = w ++ t) (hlt : utf8Len w < utf8Len l) :
    ∃ r, r ≠ [] ∧ l = w ++ r ∧ t = r ++ x := by
  induction w generalizing l with
  | nil =>
    refine ⟨l, ?_, by simp, by simpa using h.symm⟩
    intro e; subst e; exact absurd hlt (by simp)
  | cons c w ih =>
    cases l with
    | nil => simp at hlt
    | cons d l =>
      simp only [List.cons_append, List.cons.injEq] at h
      obtain ⟨rfl, h⟩ := h
      simp only [utf8Len_cons] at hlt
      obtain ⟨r, hr, hl, ht⟩ := ih h (by omega)
      exact ⟨r, hr, by simp [hl], ht⟩

/-- the shape part of every locality statement, from the frame lemma alone -/
theorem adv_split {s s1 : PS} {l x : List Char} (ha : Adv s s1) (hs : s.rest = l ++ x)
    (hlt : s1.pos < s.pos + utf8Len l) :
    ∃ w r, r ≠ [] ∧ l = w ++ r ∧ s1.rest = r ++ x ∧ s1.pos = s.pos + utf8Len w := by
  obtain ⟨⟨w, e, hp⟩, _, _⟩ := ha
  rw [hs] at e
  obtain ⟨r, hr, hl, ht⟩ := split_of_lt e (by omega)
  exact ⟨w, r, hr, hl, ht, hp⟩

theorem advL_split {l x l' : List Char} {p p' : Nat} (ha : AdvL (l ++ x) p l' p')
    (hlt : p' < p + utf8Len l) :
    ∃ w r, r ≠ [] ∧ l = w ++ r ∧ l' = r ++ x ∧ p' = p + utf8Len w := by
  obtain ⟨w, e, hp⟩ := ha
  obtain ⟨r, hr, hl, ht⟩ := split_of_lt e (by omega)
  exact ⟨w, r, hr, hl, ht, hp⟩

/-! ## whitespace -/

theorem skipWsL_local : ∀ (l x : List Char) (p : Nat), (skipWsL (l ++ x) p).2 < p + utf8Len l →
    ∃ r, (skipWsL (l ++ x) p).1 = r ++ x ∧ ∀ y, skipWsL (l ++ y) p = (r ++ y, (skipWsL (l ++ x) p).2)
  | [], x, p, h => by
    have := (skipWsL_adv x p)
    obtain ⟨w, _, hp⟩ := this
    simp at h; omega
  | c :: l, x, p, h => by
    simp only [List.cons_append, skipWsL] at h ⊢
    by_cases hc : isWs c = true
    · simp only [hc, ↓reduceIte] at h ⊢
      obtain ⟨r, hr, hy⟩ := skipWsL_local l x (p + c.utf8Size) (by simp only [utf8Len_cons] at h; omega)
      exact ⟨r, hr, hy⟩
    · simp only [hc, Bool.false_eq_true, ↓reduceIte] at h ⊢
      exact ⟨c :: l, rfl, fun y => rfl⟩

theorem skipWs_local {s s1 : PS} {l x : List Char} (hs : s.rest = l ++ x) (h : skipWs s = .ok s1)
    (hlt : s1.pos < s.pos + utf8Len l) :
    ∃ r, s1.rest = r ++ x ∧ ∀ y, skipWs (s.re (l ++ y)) = .ok (s1.re (r ++ y)) := by
  unfold skipWs at h
  simp only [hs] at h
  split at h
  · cases h
  · cases h
    simp only at hlt
    obtain ⟨r, hr, hy⟩ := skipWsL_local l x s.pos hlt
    refine ⟨r, hr, fun y => ?_⟩
    unfold skipWs
    simp only [PS.re_rest, PS.re_pos, hy y, PS.re_bad]
    have hne : (r ++ y).isEmpty = false := by
      have : r ≠ [] := by
        intro e; subst e
        have := skipWsL_adv (l ++ x) s.pos
        obtain ⟨w, e1, e2⟩ := this
        rw [hr] at e1
        simp only [List.nil_append] at e1
        have : utf8Len l ≤ utf8Len w := by
          have := congrArg utf8Len e1; simp at this; omega
        omega
      cases r with
      | nil => exact absurd rfl this
      | cons _ _ => rfl
    simp only [hne, Bool.false_and, Bool.false_eq_true, ↓reduceIte]
    rfl

/-- `skipWs` never reports an unexpected character -/
theorem skipWs_no_unexpected {s : PS} {q : Nat} {c : Option Char} : skipWs s ≠ .error (.unexpected q c) := by
  simp only [skipWs]; split <;> simp

/-! ## single characters, literals -/

theorem expectChar_local {d : Char} {s s1 : PS} {l x : List Char} (hs : s.rest = l ++ x)
    (h : expectChar d s = .ok s1) (hlt : s1.pos < s.pos + utf8Len l) :
    ∃ r, s1.rest = r ++ x ∧ ∀ y, expectChar d (s.re (l ++ y)) = .ok (s1.re (r ++ y)) := by
  cases l with
  | nil =>
    have := (expectChar_adv h).1
    obtain ⟨w, _, hp⟩ := this
    simp at hlt; omega
  | cons c l =>
    unfold expectChar at h ⊢
    simp only [hs, List.cons_append] at h
    split at h
    · cases h
      rename_i hcd
      exact ⟨l, rfl, fun y => by simp [PS.adv, PS.re, hcd]⟩
    · cases h

theorem expectChar_local_err {d : Char} {s : PS} {l x : List Char} {q : Nat} {c : Char}
    (hs : s.rest = l ++ x) (h : expectChar d s = .error (.unexpected q (some c)))
    (hlt : q < s.pos + utf8Len l) : ∀ y, expectChar d (s.re (l ++ y)) = .error (.unexpected q (some c)) := by
  cases l with
  | nil =>
    obtain ⟨w, r, _, hq, _⟩ := expectChar_err h
    simp at hlt; omega
  | cons c0 l =>
    intro y
    unfold expectChar at h ⊢
    simp only [hs, List.cons_append] at h
    simp only [PS.re_rest, List.cons_append]
    split at h
    · cases h
    · cases h; rename_i hne; simp [hne]

theorem ErrOk.pos_leL {l : List Char} {p : Nat} {bad : Bool} {q : Nat} {c : Option Char}
    (h : ErrOk l p bad (.unexpected q c)) : p ≤ q := by
  obtain ⟨w, r, _, hq, _⟩ := h; omega

theorem ErrOkS.pos_le {s : PS} {q : Nat} {c : Option Char} (h : ErrOkS s (.unexpected q c)) : s.pos ≤ q := by
  obtain ⟨w, r, _, hq, _⟩ := h; omega

/-- the byte bound moves along with the common prefix -/
theorem local_bound {s s1 : PS} {l x r : List Char} (ha : Adv s s1) (hs : s.rest = l ++ x)
    (hr : s1.rest = r ++ x) : s1.pos + utf8Len r = s.pos + utf8Len l := by
  obtain ⟨⟨w, e, hp⟩, _, _⟩ := ha
  rw [hs, hr, ← List.append_assoc] at e
  have := List.append_cancel_right e
  rw [this, hp]; simp; omega

theorem expectChars_local : ∀ (cs : List Char) {s s1 : PS} {l x : List Char}, s.rest = l ++ x →
    expectChars cs s = .ok s1 → s1.pos < s.pos + utf8Len l →
    ∃ r, s1.rest = r ++ x ∧ ∀ y, expectChars cs (s.re (l ++ y)) = .ok (s1.re (r ++ y))
  | [], s, s1, l, x, hs, h, hlt => by
    simp only [expectChars, Except.ok.injEq] at h
    subst h
    exact ⟨l, hs, fun y => rfl⟩
  | c :: cs, s, s2, l, x, hs, h, hlt => by
    simp only [expectChars] at h
    cases h1 : expectChar c s with
    | error e => simp [h1] at h
    | ok s1 =>
      simp only [h1] at h
      have ha2 := expectChars_adv h
      have hp : s1.pos ≤ s2.pos := by obtain ⟨⟨w, _, hp⟩, _, _⟩ := ha2; omega
      obtain ⟨r1, hr1, hy1⟩ := expectChar_local hs h1 (by omega)
      have hb1 := local_bound (expectChar_adv h1) hs hr1
      obtain ⟨r2, hr2, hy2⟩ := expectChars_local cs hr1 h (by omega)
      refine ⟨r2, hr2, fun y => ?_⟩
      simp only [expectChars, hy1 y]
      exact hy2 y

theorem expectChars_local_err : ∀ (cs : List Char) {s : PS} {l x : List Char} {q : Nat} {c : Char},
    s.rest = l ++ x → expectChars cs s = .error (.unexpected q (some c)) → q < s.pos + utf8Len l →
    ∀ y, expectChars cs (s.re (l ++ y)) = .error (.unexpected q (some c))
  | [], s, l, x, q, c, hs, h, hlt => by simp [expectChars] at h
  | d :: cs, s, l, x, q, c, hs, h, hlt => by
    intro y
    simp only [expectChars] at h ⊢
    cases h1 : expectChar d s with
    | error e =>
      simp only [h1, Except.error.injEq] at h
      subst h
      rw [expectChar_local_err hs h1 hlt y]
    | ok s1 =>
      simp only [h1] at h
      have hq := (expectChars_err h).pos_le
      obtain ⟨r1, hr1, hy1⟩ := expectChar_local hs h1 (by omega)
      have hb1 := local_bound (expectChar_adv h1) hs hr1
      rw [hy1 y]
      exact expectChars_local_err cs hr1 h (by omega) y

theorem lexNull_local {s s1 : PS} {l x : List Char} (hs : s.rest = l ++ x) (h : lexNull s = .ok s1)
    (hlt : s1.pos < s.pos + utf8Len l) :
    ∃ r, s1.rest = r ++ x ∧ ∀ y, lexNull (s.re (l ++ y)) = .ok (s1.re (r ++ y)) := by
  unfold lexNull at h
  simp only [PS.beginFragment_fst, PS.beginFragment_snd] at h
  cases h1 : expectChars ['n', 'u', 'l', 'l'] s.reserve with
  | error e => simp [h1] at h
  | ok s0 =>
    simp only [h1] at h
    obtain ⟨e1, e2, _⟩ := endFragment_rest h
    obtain ⟨r, hr, hy⟩ := expectChars_local _ (s := s.reserve) (by simpa using hs) h1 (by simpa [e2] using hlt)
    refine ⟨r, by rw [e1, hr], fun y => ?_⟩
    unfold lexNull
    simp only [PS.beginFragment_fst, PS.beginFragment_snd, PS.reserve_re, hy y, PS.re_cm]
    exact endFragment_re h _

theorem lexNull_local_err {s : PS} {l x : List Char} {q : Nat} {c : Char} (hs : s.rest = l ++ x)
    (h : lexNull s = .error (.unexpected q (some c))) (hlt : q < s.pos + utf8Len l) :
    ∀ y, lexNull (s.re (l ++ y)) = .error (.unexpected q (some c)) := by
  intro y
  unfold lexNull at h ⊢
  simp only [PS.beginFragment_fst, PS.beginFragment_snd, PS.reserve_re, PS.re_cm] at h ⊢
  cases h1 : expectChars ['n', 'u', 'l', 'l'] s.reserve with
  | error e =>
    simp only [h1, Except.error.injEq] at h
    subst h
    rw [expectChars_local_err _ (s := s.reserve) (by simpa using hs) h1 (by simpa using hlt) y]
  | ok s0 =>
    simp only [h1] at h
    have := endFragment_err h
    cases this

theorem lexBool_local {s s1 : PS} {b : Bool} {l x : List Char} (hs : s.rest = l ++ x)
    (h : lexBool s = .ok (b, s1)) (hlt : s1.pos < s.pos + utf8Len l) :
    ∃ r, s1.rest = r ++ x ∧ ∀ y, lexBool (s.re (l ++ y)) = .ok (b, s1.re (r ++ y)) := by
  obtain ⟨w, r0, hr0, hl, _, _⟩ := adv_split (lexBool_adv h) hs hlt
  cases l with
  | nil => simp at hl; exact absurd hl.2 hr0
  | cons d l' =>
    unfold lexBool at h
    simp only [PS.beginFragment_fst, PS.beginFragment_snd, beginFragment_rest, hs, List.cons_append] at h
    by_cases ht : d = 't'
    · simp only [ht, ↓reduceIte] at h
      cases h1 : expectChars ['t', 'r', 'u', 'e'] s.reserve with
      | error e => simp [h1] at h
      | ok s0 =>
        simp only [h1] at h
        cases h2 : s0.endFragment s.cm.size with
        | error e => simp [h2] at h
        | ok s2 =>
          simp only [h2, Except.ok.injEq, Prod.mk.injEq] at h
          obtain ⟨rfl, rfl⟩ := h
          obtain ⟨e1, e2, _⟩ := endFragment_rest h2
          obtain ⟨r, hr, hy⟩ := expectChars_local _ (s := s.reserve) (l := d :: l') (x := x) (by simpa using hs) h1
            (by simpa [e2] using hlt)
          refine ⟨r, by rw [e1, hr], fun y => ?_⟩
          unfold lexBool
          simp only [PS.beginFragment_fst, PS.beginFragment_snd, PS.reserve_re, PS.re_rest, PS.re_cm,
            List.cons_append, ht, ↓reduceIte]
          rw [ht] at hy
          simp only [List.cons_append] at hy
          rw [hy y]; simp only [endFragment_re h2]
    · by_cases hf : d = 'f'
      · simp only [hf, ↓reduceIte] at h
        have hne : ('f' : Char) ≠ 't' := by decide
        simp only [hne, ↓reduceIte] at h
        cases h1 : expectChars ['f', 'a', 'l', 's', 'e'] s.reserve with
        | error e => simp [h1] at h
        | ok s0 =>
          simp only [h1] at h
          cases h2 : s0.endFragment s.cm.size with
          | error e => simp [h2] at h
          | ok s2 =>
            simp only [h2, Except.ok.injEq, Prod.mk.injEq] at h
            obtain ⟨rfl, rfl⟩ := h
            obtain ⟨e1, e2, _⟩ := endFragment_rest h2
            obtain ⟨r, hr, hy⟩ := expectChars_local _ (s := s.reserve) (l := d :: l') (x := x) (by simpa using hs) h1
              (by simpa [e2] using hlt)
            refine ⟨r, by rw [e1, hr], fun y => ?_⟩
            unfold lexBool
            simp only [PS.beginFragment_fst, PS.beginFragment_snd, PS.reserve_re, PS.re_rest, PS.re_cm,
              List.cons_append, hf, hne, ↓reduceIte]
            rw [hf] at hy
            simp only [List.cons_append] at hy
            rw [hy y]; simp only [endFragment_re h2]
      · simp [ht, hf] at h

theorem lexBool_local_err {s : PS} {l x : List Char} {q : Nat} {c : Char} (hs : s.rest = l ++ x)
    (h : lexBool s = .error (.unexpected q (some c))) (hlt : q < s.pos + utf8Len l) :
    ∀ y, lexBool (s.re (l ++ y)) = .error (.unexpected q (some c)) := by
  intro y
  cases l with
  | nil =>
    have := (lexBool_err h).pos_le
    simp at hlt; omega
  | cons d l' =>
    unfold lexBool at h ⊢
    simp only [PS.beginFragment_fst, PS.beginFragment_snd, beginFragment_rest, hs, List.cons_append,
      PS.reserve_re, PS.re_rest, PS.re_cm] at h ⊢
    by_cases ht : d = 't'
    · simp only [ht, ↓reduceIte] at h ⊢
      cases h1 : expectChars ['t', 'r', 'u', 'e'] s.reserve with
      | error e =>
        simp only [h1, Except.error.injEq] at h
        subst h
        have := expectChars_local_err _ (s := s.reserve) (l := d :: l') (x := x) (by simpa using hs) h1 (by simpa using hlt) y
        rw [ht] at this
        simp only [List.cons_append] at this
        rw [this]
      | ok s0 =>
        simp only [h1] at h
        cases h2 : s0.endFragment s.cm.size with
        | error e => simp only [h2, Except.error.injEq] at h; have := endFragment_err h2; subst h; cases this
        | ok s2 => simp [h2] at h
    · by_cases hf : d = 'f'
      · have hne : ('f' : Char) ≠ 't' := by decide
        simp only [hf, hne, ↓reduceIte] at h ⊢
        cases h1 : expectChars ['f', 'a', 'l', 's', 'e'] s.reserve with
        | error e =>
          simp only [h1, Except.error.injEq] at h
          subst h
          have := expectChars_local_err _ (s := s.reserve) (l := d :: l') (x := x) (by simpa using hs) h1 (by simpa using hlt) y
          rw [hf] at this
          simp only [List.cons_append] at this
          rw [this]
        | ok s0 =>
          simp only [h1] at h
          cases h2 : s0.endFragment s.cm.size with
          | error e => simp only [h2, Except.error.injEq] at h; have := endFragment_err h2; subst h; cases this
          | ok s2 => simp [h2] at h
      · simp only [ht, hf, ↓reduceIte] at h ⊢
        exact h

/-! ## numbers -/

theorem numLoop_local (ctx : Ctx) : ∀ (l x : List Char) (st : NumState) (buf : List Char) (pos : Nat)
    (st' : NumState) (buf' r' : List Char) (p' : Nat),
    numLoop ctx st buf (l ++ x) pos = .ok (st', buf', r', p') → p' < pos + utf8Len l →
    ∃ r, r' = r ++ x ∧ ∀ y, numLoop ctx st buf (l ++ y) pos = .ok (st', buf', r ++ y, p')
  | [], x, st, buf, pos, st', buf', r', p', h, hlt => by
    obtain ⟨w, _, hp, _⟩ := numLoop_adv h
    simp at hlt; omega
  | c :: l, x, st, buf, pos, st', buf', r', p', h, hlt => by
    simp only [List.cons_append, numLoop] at h ⊢
    cases ht : numTrans ctx st c with
    | to st2 =>
      simp only [ht] at h ⊢
      exact numLoop_local ctx l x st2 (buf ++ [c]) (pos + c.utf8Size) st' buf' r' p' h
        (by simp only [utf8Len_cons] at hlt; omega)
    | stop =>
      simp only [ht, Except.ok.injEq, Prod.mk.injEq] at h ⊢
      obtain ⟨rfl, rfl, rfl, rfl⟩ := h
      exact ⟨c :: l, rfl, fun y => ⟨rfl, rfl, rfl, rfl⟩⟩
    | bad => simp [ht] at h

theorem numLoop_local_err (ctx : Ctx) : ∀ (l x : List Char) (st : NumState) (buf : List Char) (pos : Nat)
    (q : Nat) (c : Char),
    numLoop ctx st buf (l ++ x) pos = .error (.unexpected q (some c)) → q < pos + utf8Len l →
    ∀ y, numLoop ctx st buf (l ++ y) pos = .error (.unexpected q (some c))
  | [], x, st, buf, pos, q, c, h, hlt => by
    obtain ⟨w, r, _, hq, _⟩ := numLoop_err (bad := false) h
    simp at hlt; omega
  | d :: l, x, st, buf, pos, q, c, h, hlt => by
    intro y
    simp only [List.cons_append, numLoop] at h ⊢
    cases ht : numTrans ctx st d with
    | to st2 =>
      simp only [ht] at h ⊢
      exact numLoop_local_err ctx l x st2 (buf ++ [d]) (pos + d.utf8Size) q c h
        (by simp only [utf8Len_cons] at hlt; omega) y
    | stop => simp [ht] at h
    | bad => simpa [ht] using h

theorem lexNumber_local {ctx : Ctx} {s s1 : PS} {n : List Char} {l x : List Char} (hs : s.rest = l ++ x)
    (h : lexNumber ctx s = .ok (n, s1)) (hlt : s1.pos < s.pos + utf8Len l) :
    ∃ r, s1.rest = r ++ x ∧ ∀ y, lexNumber ctx (s.re (l ++ y)) = .ok (n, s1.re (r ++ y)) := by
  unfold lexNumber at h
  simp only [PS.beginFragment_fst, PS.beginFragment_snd, beginFragment_rest, beginFragment_pos,
    beginFragment_bad, hs] at h
  cases h1 : numLoop ctx .init [] (l ++ x) s.pos with
  | error e => simp [h1] at h
  | ok res =>
    obtain ⟨st, buf, r', p'⟩ := res
    simp only [h1] at h
    cases hb : (r'.isEmpty && s.bad) with
    | true => simp [hb] at h
    | false =>
      simp only [hb] at h
      cases hacc : st.accepting with
      | false => simp [hacc] at h
      | true =>
        simp only [hacc] at h
        split at h
        · cases h
        · rename_i s2 h2
          simp only [Except.ok.injEq, Prod.mk.injEq] at h
          obtain ⟨rfl, rfl⟩ := h
          obtain ⟨e1, e2, _⟩ := endFragment_rest h2
          simp only at e1 e2
          obtain ⟨r, hr, hy⟩ := numLoop_local ctx l x .init [] s.pos st buf r' p' h1 (by rw [← e2]; exact hlt)
          refine ⟨r, by rw [e1, hr], fun y => ?_⟩
          unfold lexNumber
          simp only [PS.beginFragment_fst, PS.beginFragment_snd, PS.reserve_re, PS.re_rest, PS.re_pos,
            PS.re_bad, PS.re_cm, beginFragment_pos, beginFragment_bad, hy y]
          have hne : ((r ++ y).isEmpty && s.bad) = false := by
            have : r ≠ [] := by
              intro e; subst e
              obtain ⟨w, e1', hp, _⟩ := numLoop_adv h1
              rw [hr] at e1'
              simp only [List.nil_append] at e1'
              have : utf8Len l ≤ utf8Len w := by
                have := congrArg utf8Len e1'; simp at this; omega
              omega
            cases r with
            | nil => exact absurd rfl this
            | cons _ _ => rfl
          simp only [hne, hacc]
          have := endFragment_re h2 (r ++ y)
          simp only [PS.re] at this ⊢
          rw [this]

theorem lexNumber_local_err {ctx : Ctx} {s : PS} {l x : List Char} {q : Nat} {c : Char}
    (hs : s.rest = l ++ x) (h : lexNumber ctx s = .error (.unexpected q (some c)))
    (hlt : q < s.pos + utf8Len l) : ∀ y, lexNumber ctx (s.re (l ++ y)) = .error (.unexpected q (some c)) := by
  intro y
  unfold lexNumber at h ⊢
  simp only [PS.beginFragment_fst, PS.beginFragment_snd, beginFragment_rest, beginFragment_pos,
    beginFragment_bad, hs, PS.reserve_re, PS.re_rest, PS.re_pos, PS.re_bad, PS.re_cm] at h ⊢
  cases h1 : numLoop ctx .init [] (l ++ x) s.pos with
  | error e =>
    simp only [h1, Except.error.injEq] at h
    subst h
    rw [numLoop_local_err ctx l x .init [] s.pos q c h1 hlt y]
  | ok res =>
    obtain ⟨st, buf, r', p'⟩ := res
    simp only [h1] at h
    cases hb : (r'.isEmpty && s.bad) with
    | true => simp [hb] at h
    | false =>
      simp only [hb] at h
      cases hacc : st.accepting with
      | false => simp [hacc] at h
      | true =>
        simp only [hacc] at h
        split at h
        · rename_i e h2
          simp only [Except.error.injEq] at h
          have := endFragment_err h2; subst h; cases this
        · cases h

/-! ## strings -/

theorem hexDigitAt_local {bad : Bool} : ∀ (l x : List Char) (pos h : Nat) (r' : List Char) (p' : Nat),
    hexDigitAt bad (l ++ x) pos = .ok (h, r', p') → p' < pos + utf8Len l →
    ∃ r, r' = r ++ x ∧ ∀ y, hexDigitAt bad (l ++ y) pos = .ok (h, r ++ y, p')
  | [], x, pos, h, r', p', hh, hlt => by
    obtain ⟨w, _, hp⟩ := hexDigitAt_adv hh
    simp at hlt; omega
  | c :: l, x, pos, h, r', p', hh, hlt => by
    simp only [List.cons_append, hexDigitAt] at hh ⊢
    cases hv : hexVal c with
    | none => simp [hv] at hh
    | some v =>
      simp only [hv, Except.ok.injEq, Prod.mk.injEq] at hh ⊢
      obtain ⟨rfl, rfl, rfl⟩ := hh
      exact ⟨l, rfl, fun y => ⟨rfl, rfl, rfl⟩⟩

theorem hexDigitAt_local_err {bad : Bool} : ∀ (l x : List Char) (pos q : Nat) (c : Char),
    hexDigitAt bad (l ++ x) pos = .error (.unexpected q (some c)) → q < pos + utf8Len l →
    ∀ y, hexDigitAt bad (l ++ y) pos = .error (.unexpected q (some c))
  | [], x, pos, q, c, hh, hlt => by
    obtain ⟨w, r, _, hq, _⟩ := hexDigitAt_err hh
    simp at hlt; omega
  | d :: l, x, pos, q, c, hh, hlt => by
    intro y
    simp only [List.cons_append, hexDigitAt] at hh ⊢
    cases hv : hexVal d with
    | none => simpa [hv] using hh
    | some v => simp [hv] at hh

theorem local_boundL {l x r : List Char} {p p' : Nat} (ha : AdvL (l ++ x) p (r ++ x) p') :
    p' + utf8Len r = p + utf8Len l := by
  obtain ⟨w, e, hp⟩ := ha
  rw [← List.append_assoc] at e
  have := List.append_cancel_right e
  rw [this, hp]; simp; omega

theorem AdvL.le {l l' : List Char} {p p' : Nat} (h : AdvL l p l' p') : p ≤ p' := by
  obtain ⟨_, _, hp⟩ := h; omega

theorem hex4_local {bad : Bool} {l x : List Char} {pos cp : Nat} {r' : List Char} {p' : Nat}
    (h : hex4 bad (l ++ x) pos = .ok (cp, r', p')) (hlt : p' < pos + utf8Len l) :
    ∃ r, r' = r ++ x ∧ ∀ y, hex4 bad (l ++ y) pos = .ok (cp, r ++ y, p') := by
  unfold hex4 at h
  cases h1 : hexDigitAt bad (l ++ x) pos with
  | error e => simp [h1] at h
  | ok v1 =>
    obtain ⟨a1, l1', p1⟩ := v1
    simp only [h1] at h
    cases h2 : hexDigitAt bad l1' p1 with
    | error e => simp [h2] at h
    | ok v2 =>
      obtain ⟨a2, l2', p2⟩ := v2
      simp only [h2] at h
      cases h3 : hexDigitAt bad l2' p2 with
      | error e => simp [h3] at h
      | ok v3 =>
        obtain ⟨a3, l3', p3⟩ := v3
        simp only [h3] at h
        cases h4 : hexDigitAt bad l3' p3 with
        | error e => simp [h4] at h
        | ok v4 =>
          obtain ⟨a4, l4', p4⟩ := v4
          simp only [h4, Except.ok.injEq, Prod.mk.injEq] at h
          obtain ⟨rfl, rfl, rfl⟩ := h
          have g2 := (hexDigitAt_adv h2).le; have g3 := (hexDigitAt_adv h3).le; have g4 := (hexDigitAt_adv h4).le
          obtain ⟨r1, rfl, hy1⟩ := hexDigitAt_local l x pos a1 l1' p1 h1 (by omega)
          have b1 := local_boundL (hexDigitAt_adv h1)
          obtain ⟨r2, rfl, hy2⟩ := hexDigitAt_local r1 x p1 a2 l2' p2 h2 (by omega)
          have b2 := local_boundL (hexDigitAt_adv h2)
          obtain ⟨r3, rfl, hy3⟩ := hexDigitAt_local r2 x p2 a3 l3' p3 h3 (by omega)
          have b3 := local_boundL (hexDigitAt_adv h3)
          obtain ⟨r4, rfl, hy4⟩ := hexDigitAt_local r3 x p3 a4 l4' p4 h4 (by omega)
          refine ⟨r4, rfl, fun y => ?_⟩
          unfold hex4
          simp only [hy1 y, hy2 y, hy3 y, hy4 y]

theorem hex4_local_err {bad : Bool} {l x : List Char} {pos q : Nat} {c : Char}
    (h : hex4 bad (l ++ x) pos = .error (.unexpected q (some c))) (hlt : q < pos + utf8Len l) :
    ∀ y, hex4 bad (l ++ y) pos = .error (.unexpected q (some c)) := by
  intro y
  unfold hex4 at h ⊢
  cases h1 : hexDigitAt bad (l ++ x) pos with
  | error e =>
    simp only [h1, Except.error.injEq] at h; subst h
    rw [hexDigitAt_local_err l x pos q c h1 hlt y]
  | ok v1 =>
    obtain ⟨a1, l1', p1⟩ := v1
    simp only [h1] at h
    cases h2 : hexDigitAt bad l1' p1 with
    | error e =>
      simp only [h2, Except.error.injEq] at h; subst h
      have g := (hexDigitAt_err h2).pos_leL
      obtain ⟨r1, rfl, hy1⟩ := hexDigitAt_local l x pos a1 l1' p1 h1 (by omega)
      have b1 := local_boundL (hexDigitAt_adv h1)
      rw [hy1 y]; simp only
      rw [hexDigitAt_local_err r1 x p1 q c h2 (by omega) y]
    | ok v2 =>
      obtain ⟨a2, l2', p2⟩ := v2
      simp only [h2] at h
      cases h3 : hexDigitAt bad l2' p2 with
      | error e =>
        simp only [h3, Except.error.injEq] at h; subst h
        have g := (hexDigitAt_err h3).pos_leL
        have g2 := (hexDigitAt_adv h2).le
        obtain ⟨r1, rfl, hy1⟩ := hexDigitAt_local l x pos a1 l1' p1 h1 (by omega)
        have b1 := local_boundL (hexDigitAt_adv h1)
        obtain ⟨r2, rfl, hy2⟩ := hexDigitAt_local r1 x p1 a2 l2' p2 h2 (by omega)
        have b2 := local_boundL (hexDigitAt_adv h2)
        rw [hy1 y]; simp only
        rw [hy2 y]; simp only
        rw [hexDigitAt_local_err r2 x p2 q c h3 (by omega) y]
      | ok v3 =>
        obtain ⟨a3, l3', p3⟩ := v3
        simp only [h3] at h
        cases h4 : hexDigitAt bad l3' p3 with
        | error e =>
          simp only [h4, Except.error.injEq] at h; subst h
          have g := (hexDigitAt_err h4).pos_leL
          have g2 := (hexDigitAt_adv h2).le; have g3 := (hexDigitAt_adv h3).le
          obtain ⟨r1, rfl, hy1⟩ := hexDigitAt_local l x pos a1 l1' p1 h1 (by omega)
          have b1 := local_boundL (hexDigitAt_adv h1)
          obtain ⟨r2, rfl, hy2⟩ := hexDigitAt_local r1 x p1 a2 l2' p2 h2 (by omega)
          have b2 := local_boundL (hexDigitAt_adv h2)
          obtain ⟨r3, rfl, hy3⟩ := hexDigitAt_local r2 x p2 a3 l3' p3 h3 (by omega)
          have b3 := local_boundL (hexDigitAt_adv h3)
          rw [hy1 y]; simp only
          rw [hy2 y]; simp only
          rw [hy3 y]; simp only
          rw [hexDigitAt_local_err r3 x p3 q c h4 (by omega) y]
        | ok v4 => simp [h4] at h

/-- the same step result with `y` appended to the unread input it hands on -/
def StrStep.app (y : List Char) : StrStep → StrStep
  | .done a r p q => .done a (r ++ y) p q
  | .more a h r p => .more a h (r ++ y) p
  | .err e => .err e

/-- locality of a step result `st` obtained on `… ++ x`, against the results `g y` on `… ++ y` -/
def StepLoc (bound : Nat) (x : List Char) (st : StrStep) (g : List Char → StrStep) : Prop :=
  match st with
  | .done a r' p q => p < bound → ∃ r, r' = r ++ x ∧ ∀ y, g y = .done a (r ++ y) p q
  | .more a hi r' p => p < bound → ∃ r, r' = r ++ x ∧ ∀ y, g y = .more a hi (r ++ y) p
  | .err (.unexpected q (some c)) => q < bound → ∀ y, g y = .err (.unexpected q (some c))
  | .err _ => True

/-- a continuation that only hands its input on is local, wherever the prefix ends -/
theorem stepLoc_app {bound : Nat} {x : List Char} (K : List Char → StrStep)
    (hu : ∀ r y, K (r ++ y) = (K r).app y) (r : List Char) :
    StepLoc bound x (K (r ++ x)) (fun y => K (r ++ y)) := by
  rw [hu r x]
  cases hk : K r with
  | done a r0 p q =>
    simp only [StrStep.app, StepLoc]
    intro _
    exact ⟨r0, rfl, fun y => by rw [hu r y, hk]; rfl⟩
  | more a hi r0 p =>
    simp only [StrStep.app, StepLoc]
    intro _
    exact ⟨r0, rfl, fun y => by rw [hu r y, hk]; rfl⟩
  | err e =>
    cases e with
    | unexpected q c =>
      cases c with
      | none => simp [StrStep.app, StepLoc]
      | some c =>
        simp only [StrStep.app, StepLoc]
        intro _ y
        rw [hu r y, hk]; rfl
    | _ => simp [StrStep.app, StepLoc]

theorem flushChar_app (o : ParseOptions) (acc : List Char) (high : Option (Nat × Nat)) (c : Char)
    (pos pn : Nat) (r y : List Char) :
    flushChar o acc high c (r ++ y) pos pn = (flushChar o acc high c r pos pn).app y := by
  unfold flushChar
  repeat' split
  all_goals rfl

theorem noHigh_app (o : ParseOptions) (acc : List Char) (pe cp pos : Nat) (r y : List Char) :
    noHigh o acc pe cp (r ++ y) pos = (noHigh o acc pe cp r pos).app y := by
  unfold noHigh
  repeat' split
  all_goals rfl

/-- what `strEscU` does with the code unit once `parse_hex4` has delivered it -/
def escUK (o : ParseOptions) (acc : List Char) (high : Option (Nat × Nat)) (pe cp : Nat)
    (r3 : List Char) (pos3 : Nat) : StrStep :=
  match high with
  | some (ph, h) =>
    if isLow cp then
      match ofCp (pairCp h cp) with
      | some ch => .more (acc ++ [ch]) none r3 pos3
      | none =>
        if o.inval then .more (acc ++ [fffd]) none r3 pos3
        else .err (.invalidCodePoint ph pos3 (pairCp h cp))
    else if o.trunc then noHigh o (acc ++ [fffd]) pe cp r3 pos3
    else .err (.invalidLow pe pos3 h cp)
  | none => noHigh o acc pe cp r3 pos3

theorem strEscU_eq (o : ParseOptions) (bad : Bool) (acc : List Char) (high : Option (Nat × Nat))
    (r2 : List Char) (pe pos : Nat) :
    strEscU o bad acc high r2 pe pos =
      (match hex4 bad r2 pos with
       | .error e => .err e
       | .ok (cp, r3, pos3) => escUK o acc high pe cp r3 pos3) := by
  unfold strEscU
  cases hex4 bad r2 pos with
  | error e => rfl
  | ok v =>
    obtain ⟨cp, r3, pos3⟩ := v
    simp only [escUK]
    cases high with
    | none => rfl
    | some p =>
      obtain ⟨ph, h⟩ := p
      simp only
      by_cases hl : isLow cp = true
      · simp only [hl, ↓reduceIte]
        cases ofCp (pairCp h cp) <;> rfl
      · simp only [hl, Bool.false_eq_true, ↓reduceIte]

theorem escUK_app (o : ParseOptions) (acc : List Char) (high : Option (Nat × Nat)) (pe cp pos3 : Nat)
    (r y : List Char) : escUK o acc high pe cp (r ++ y) pos3 = (escUK o acc high pe cp r pos3).app y := by
  unfold escUK
  repeat' split
  all_goals (first | rfl | exact noHigh_app _ _ _ _ _ _ _)

/-- the position a step result hands on (`none` for errors that are not unexpected-character errors) -/
def StrStep.at (p : Nat) : StrStep → Prop
  | .more _ _ _ p' => p' = p
  | .done _ _ _ _ => False
  | .err (.unexpected _ _) => False
  | .err _ => True

theorem noHigh_at (o : ParseOptions) (acc : List Char) (pe cp pos : Nat) (r : List Char) :
    (noHigh o acc pe cp r pos).at pos := by
  unfold noHigh
  repeat' split
  all_goals simp [StrStep.at]

theorem escUK_at (o : ParseOptions) (acc : List Char) (high : Option (Nat × Nat)) (pe cp pos3 : Nat)
    (r : List Char) : (escUK o acc high pe cp r pos3).at pos3 := by
  unfold escUK
  repeat' split
  all_goals (first | exact noHigh_at _ _ _ _ _ _ | simp [StrStep.at])

theorem flushChar_at (o : ParseOptions) (acc : List Char) (high : Option (Nat × Nat)) (c : Char)
    (pos pn : Nat) (r : List Char) : (flushChar o acc high c r pos pn).at pos := by
  unfold flushChar
  repeat' split
  all_goals simp [StrStep.at]

/-- a result sitting at `p ≥ bound` makes every locality claim vacuous -/
theorem stepLoc_of_at {bound p : Nat} {x : List Char} {st : StrStep} {g : List Char → StrStep}
    (h : st.at p) (hb : bound ≤ p) : StepLoc bound x st g := by
  cases st with
  | done a r p' q => exact absurd h (by simp [StrStep.at])
  | more a hi r p' => simp only [StrStep.at] at h; subst h; simp only [StepLoc]; intro hh; omega
  | err e =>
    cases e with
    | unexpected q c => exact absurd h (by simp [StrStep.at])
    | _ => simp [StepLoc]

theorem strEscU_loc (o : ParseOptions) (bad : Bool) (acc : List Char) (high : Option (Nat × Nat))
    (l x : List Char) (pe pos : Nat) :
    StepLoc (pos + utf8Len l) x (strEscU o bad acc high (l ++ x) pe pos)
      (fun y => strEscU o bad acc high (l ++ y) pe pos) := by
  simp only [strEscU_eq]
  cases h4 : hex4 bad (l ++ x) pos with
  | error e =>
    cases e with
    | unexpected q c =>
      cases c with
      | none => simp [StepLoc]
      | some c =>
        simp only [StepLoc]
        intro hlt y
        rw [hex4_local_err h4 hlt y]
    | _ => simp [StepLoc]
  | ok v =>
    obtain ⟨cp, r3', pos3⟩ := v
    simp only
    by_cases hlt : pos3 < pos + utf8Len l
    · obtain ⟨r3, rfl, hy⟩ := hex4_local h4 hlt
      have := stepLoc_app (bound := pos + utf8Len l) (x := x) (fun r => escUK o acc high pe cp r pos3)
        (fun r y => escUK_app o acc high pe cp pos3 r y) r3
      simp only [hy]
      exact this
    · exact stepLoc_of_at (escUK_at o acc high pe cp pos3 r3') (by omega)

theorem stepLoc_vacuous {bound : Nat} {x : List Char} {st : StrStep} {g : List Char → StrStep}
    (hm : ∀ a hi r p, st = .more a hi r p → bound ≤ p) (hd : ∀ a r p q, st = .done a r p q → bound ≤ p)
    (he : ∀ q c, st = .err (.unexpected q (some c)) → bound ≤ q) : StepLoc bound x st g := by
  cases st with
  | done a r p q => simp only [StepLoc]; intro h; have := hd a r p q rfl; omega
  | more a hi r p => simp only [StepLoc]; intro h; have := hm a hi r p rfl; omega
  | err e =>
    cases e with
    | unexpected q c =>
      cases c with
      | none => simp [StepLoc]
      | some c => simp only [StepLoc]; intro h; have := he q c rfl; omega
    | _ => simp [StepLoc]

theorem StrStep.at_not_unexpected {p : Nat} {st : StrStep} (h : st.at p) {q : Nat} {c : Option Char} :
    st ≠ .err (.unexpected q c) := by
  intro e; subst e; exact h

theorem strEscU_err_pos {o : ParseOptions} {bad : Bool} {acc : List Char} {high : Option (Nat × Nat)}
    {r2 : List Char} {pe pos q : Nat} {c : Option Char}
    (h : strEscU o bad acc high r2 pe pos = .err (.unexpected q c)) : pos ≤ q := by
  rw [strEscU_eq] at h
  cases h4 : hex4 bad r2 pos with
  | error e =>
    simp only [h4, StrStep.err.injEq] at h
    subst h
    exact (hex4_err h4).pos_leL
  | ok v =>
    obtain ⟨cp, r3, pos3⟩ := v
    simp only [h4] at h
    exact absurd h (StrStep.at_not_unexpected (escUK_at o acc high pe cp pos3 r3))

theorem strEsc_err_pos {o : ParseOptions} {bad : Bool} {acc : List Char} {high : Option (Nat × Nat)}
    {r : List Char} {pos pn q : Nat} {c : Option Char}
    (h : strEsc o bad acc high r pos pn = .err (.unexpected q c)) : pos ≤ q := by
  unfold strEsc at h
  split at h
  · unfold eofErrAt at h; split at h <;> cases h; exact Nat.le_refl _
  · rename_i e r2
    split at h
    · have := strEscU_err_pos h; omega
    · split at h
      · exact absurd h (StrStep.at_not_unexpected (flushChar_at _ _ _ _ _ _ _))
      · cases h; exact Nat.le_refl _

theorem strEsc_not_done {o : ParseOptions} {bad : Bool} {acc : List Char} {high : Option (Nat × Nat)}
    {r : List Char} {pos pn : Nat} {a r' : List Char} {p q : Nat} :
    strEsc o bad acc high r pos pn ≠ .done a r' p q := by
  intro h
  unfold strEsc at h
  split at h
  · cases h
  · rename_i e r2
    split at h
    · rw [strEscU_eq] at h
      cases h4 : hex4 bad r2 (pos + e.utf8Size) with
      | error e => simp [h4] at h
      | ok v =>
        obtain ⟨cp, r3, pos3⟩ := v
        simp only [h4] at h
        have := escUK_at o acc high pos cp pos3 r3
        rw [h] at this; exact this
    · split at h
      · have := flushChar_at o acc high ‹Char› (pos + e.utf8Size) pn r2
        rw [h] at this; exact this
      · cases h

theorem strEsc_loc (o : ParseOptions) (bad : Bool) (acc : List Char) (high : Option (Nat × Nat))
    (l x : List Char) (pos pn : Nat) :
    StepLoc (pos + utf8Len l) x (strEsc o bad acc high (l ++ x) pos pn)
      (fun y => strEsc o bad acc high (l ++ y) pos pn) := by
  cases l with
  | nil =>
    apply stepLoc_vacuous
    · intro a hi r p h; have := (strEsc_adv h).le; simpa using this
    · intro a r p q h; exact absurd h strEsc_not_done
    · intro q c h; have := strEsc_err_pos h; simpa using this
  | cons e l' =>
    simp only [List.cons_append, strEsc]
    by_cases hu : e = 'u'
    · simp only [hu, ↓reduceIte]
      have := strEscU_loc o bad acc high l' x pos (pos + ('u' : Char).utf8Size)
      simpa [hu, Nat.add_assoc] using this
    · simp only [hu, ↓reduceIte]
      cases he : esc2 e with
      | some ch =>
        simp only
        exact stepLoc_app (fun r => flushChar o acc high ch r (pos + e.utf8Size) pn)
          (fun r y => flushChar_app o acc high ch _ _ r y) l'
      | none =>
        simp only [StepLoc]
        intro _ y; trivial

theorem strStep_err_pos {o : ParseOptions} {bad : Bool} {acc : List Char} {high : Option (Nat × Nat)}
    {l : List Char} {pos q : Nat} {c : Option Char}
    (h : strStep o bad acc high l pos = .err (.unexpected q c)) : pos ≤ q := by
  unfold strStep at h
  split at h
  · unfold eofErrAt at h; split at h <;> cases h; exact Nat.le_refl _
  · rename_i c0 r
    split at h
    · repeat' (split at h)
      all_goals cases h
    · split at h
      · have := strEsc_err_pos h; omega
      · split at h
        · cases h; exact Nat.le_refl _
        · exact absurd h (StrStep.at_not_unexpected (flushChar_at _ _ _ _ _ _ _))

theorem strStep_loc (o : ParseOptions) (bad : Bool) (acc : List Char) (high : Option (Nat × Nat))
    (l x : List Char) (pos : Nat) :
    StepLoc (pos + utf8Len l) x (strStep o bad acc high (l ++ x) pos)
      (fun y => strStep o bad acc high (l ++ y) pos) := by
  cases l with
  | nil =>
    apply stepLoc_vacuous
    · intro a hi r p h; have := (strStep_more_adv h).le; simpa using this
    · intro a r p q h; have := (strStep_done_adv h).le; simpa using this
    · intro q c h; have := strStep_err_pos h; simpa using this
  | cons c l' =>
    simp only [List.cons_append, strStep]
    by_cases hq : c = '"'
    · simp only [hq, ↓reduceIte]
      cases high with
      | none => simp only [StepLoc]; intro _; exact ⟨l', rfl, fun y => rfl⟩
      | some p =>
        obtain ⟨ph, h⟩ := p
        simp only
        by_cases ht : o.trunc = true
        · simp only [ht, ↓reduceIte, StepLoc]; intro _; exact ⟨l', rfl, fun y => rfl⟩
        · simp [ht, StepLoc]
    · simp only [hq, ↓reduceIte]
      by_cases hb : c = '\\'
      · simp only [hb, ↓reduceIte]
        have := strEsc_loc o bad acc high l' x (pos + ('\\' : Char).utf8Size) pos
        simpa [hb, Nat.add_assoc] using this
      · simp only [hb, ↓reduceIte]
        by_cases hc : isControl c = true
        · simp only [hc, ↓reduceIte, StepLoc]; intro _ y; trivial
        · simp only [hc, Bool.false_eq_true, ↓reduceIte]
          exact stepLoc_app (fun r => flushChar o acc high c r (pos + c.utf8Size) pos)
            (fun r y => flushChar_app o acc high c _ _ r y) l'

theorem strLoopAux_err_pos {o : ParseOptions} {bad : Bool} (fuel : List Char) :
    ∀ {acc : List Char} {high : Option (Nat × Nat)} {l : List Char} {pos q : Nat} {c : Option Char},
      strLoopAux o bad fuel acc high l pos = .error (.unexpected q c) → pos ≤ q := by
  induction fuel with
  | nil =>
    intro acc high l pos q c h
    rw [strLoopAux] at h
    split at h
    · cases h
    · rename_i e hs; cases h; exact strStep_err_pos hs
    · cases h
  | cons c0 fuel ih =>
    intro acc high l pos q c h
    rw [strLoopAux] at h
    split at h
    · cases h
    · rename_i e hs; cases h; exact strStep_err_pos hs
    · rename_i hs
      have := (strStep_more_adv hs).le
      have := ih h
      omega

theorem strLoopAux_local (o : ParseOptions) (bad : Bool) : ∀ (fuel1 : List Char) (acc : List Char)
    (high : Option (Nat × Nat)) (l x : List Char) (pos : Nat) (a r' : List Char) (p q : Nat),
    strLoopAux o bad fuel1 acc high (l ++ x) pos = .ok (a, r', p, q) → p < pos + utf8Len l →
    ∃ r, r' = r ++ x ∧ ∀ y fuel2, (l ++ y).length ≤ fuel2.length →
      strLoopAux o bad fuel2 acc high (l ++ y) pos = .ok (a, r ++ y, p, q) := by
  intro fuel1
  induction fuel1 with
  | nil =>
    intro acc high l x pos a r' p q h hlt
    rw [strLoopAux] at h
    have hloc := strStep_loc o bad acc high l x pos
    cases hs : strStep o bad acc high (l ++ x) pos with
    | done a1 r1 p1 q1 =>
      simp only [hs, Except.ok.injEq, Prod.mk.injEq] at h
      obtain ⟨rfl, rfl, rfl, rfl⟩ := h
      rw [hs] at hloc
      obtain ⟨r, hr, hy⟩ := hloc hlt
      refine ⟨r, hr, fun y fuel2 _ => ?_⟩
      rw [strLoopAux]; simp only [hy y]
    | err e => simp [hs] at h
    | more a1 hi r1 p1 => simp [hs] at h
  | cons c fuel1 ih =>
    intro acc high l x pos a r' p q h hlt
    rw [strLoopAux] at h
    have hloc := strStep_loc o bad acc high l x pos
    cases hs : strStep o bad acc high (l ++ x) pos with
    | done a1 r1 p1 q1 =>
      simp only [hs, Except.ok.injEq, Prod.mk.injEq] at h
      obtain ⟨rfl, rfl, rfl, rfl⟩ := h
      rw [hs] at hloc
      obtain ⟨r, hr, hy⟩ := hloc hlt
      refine ⟨r, hr, fun y fuel2 _ => ?_⟩
      rw [strLoopAux]; simp only [hy y]
    | err e => simp [hs] at h
    | more a1 hi r1' p1 =>
      simp only [hs] at h
      rw [hs] at hloc
      have hle := (strLoopAux_adv fuel1 h).le
      obtain ⟨r1, rfl, hy1⟩ := hloc (by omega)
      have hb := local_boundL (strStep_more_adv hs)
      obtain ⟨r, hr, hy⟩ := ih a1 hi r1 x p1 a r' p q h (by omega)
      refine ⟨r, hr, fun y fuel2 hf => ?_⟩
      have hlen := strStep_len (hy1 y)
      rw [strLoopAux]; simp only [hy1 y]
      cases fuel2 with
      | nil => simp only [List.length_nil] at hf; omega
      | cons c2 fuel2 =>
        simp only
        exact hy y fuel2 (by simp only [List.length_cons] at hf; omega)

theorem strLoopAux_local_err (o : ParseOptions) (bad : Bool) : ∀ (fuel1 : List Char) (acc : List Char)
    (high : Option (Nat × Nat)) (l x : List Char) (pos : Nat) (q : Nat) (c : Char),
    strLoopAux o bad fuel1 acc high (l ++ x) pos = .error (.unexpected q (some c)) → q < pos + utf8Len l →
    ∀ y fuel2, (l ++ y).length ≤ fuel2.length →
      strLoopAux o bad fuel2 acc high (l ++ y) pos = .error (.unexpected q (some c)) := by
  intro fuel1
  induction fuel1 with
  | nil =>
    intro acc high l x pos q c h hlt y fuel2 _
    rw [strLoopAux] at h
    have hloc := strStep_loc o bad acc high l x pos
    cases hs : strStep o bad acc high (l ++ x) pos with
    | done a1 r1 p1 q1 => simp [hs] at h
    | err e =>
      simp only [hs, Except.error.injEq] at h
      subst h
      rw [hs] at hloc
      rw [strLoopAux]; simp only [hloc hlt y]
    | more a1 hi r1 p1 => simp [hs] at h
  | cons c0 fuel1 ih =>
    intro acc high l x pos q c h hlt y fuel2 hf
    rw [strLoopAux] at h
    have hloc := strStep_loc o bad acc high l x pos
    cases hs : strStep o bad acc high (l ++ x) pos with
    | done a1 r1 p1 q1 => simp [hs] at h
    | err e =>
      simp only [hs, Except.error.injEq] at h
      subst h
      rw [hs] at hloc
      rw [strLoopAux]; simp only [hloc hlt y]
    | more a1 hi r1' p1 =>
      simp only [hs] at h
      rw [hs] at hloc
      have hle : p1 ≤ q := strLoopAux_err_pos fuel1 h
      obtain ⟨r1, rfl, hy1⟩ := hloc (by omega)
      have hb := local_boundL (strStep_more_adv hs)
      have hlen := strStep_len (hy1 y)
      rw [strLoopAux]; simp only [hy1 y]
      cases fuel2 with
      | nil => simp only [List.length_nil] at hf; omega
      | cons c2 fuel2 =>
        simp only
        exact ih a1 hi r1 x p1 q c h (by omega) y fuel2 (by simp only [List.length_cons] at hf; omega)

theorem lexString_local {o : ParseOptions} {s s1 : PS} {str : List Char} {l x : List Char}
    (hs : s.rest = l ++ x) (h : lexString o s = .ok (str, s1)) (hlt : s1.pos < s.pos + utf8Len l) :
    ∃ r, s1.rest = r ++ x ∧ ∀ y, lexString o (s.re (l ++ y)) = .ok (str, s1.re (r ++ y)) := by
  obtain ⟨w, r0, hr0, hl, _, _⟩ := adv_split (lexString_adv h) hs hlt
  cases l with
  | nil => simp at hl; exact absurd hl.2 hr0
  | cons d l' =>
    unfold lexString at h
    simp only [PS.beginFragment_fst, PS.beginFragment_snd, beginFragment_rest, beginFragment_pos,
      beginFragment_bad, hs, List.cons_append] at h
    by_cases hd : d = '"'
    · simp only [hd, ↓reduceIte] at h
      cases h1 : strLoop o s.bad [] none (l' ++ x) (s.pos + ('"' : Char).utf8Size) with
      | error e => simp [h1] at h
      | ok v =>
        obtain ⟨str', r', pos', q⟩ := v
        simp only [h1] at h
        split at h
        · cases h
        · rename_i s2 h2
          simp only [Except.ok.injEq, Prod.mk.injEq] at h
          obtain ⟨rfl, rfl⟩ := h
          obtain ⟨e1, e2, _⟩ := endFragment_rest h2
          simp only at e1 e2
          unfold strLoop at h1
          obtain ⟨r, hr, hy⟩ := strLoopAux_local o s.bad (l' ++ x) [] none l' x _ str' r' pos' q h1
            (by rw [e2] at hlt; simp only [utf8Len_cons, hd] at hlt; omega)
          refine ⟨r, by rw [e1, hr], fun y => ?_⟩
          unfold lexString
          simp only [PS.beginFragment_fst, PS.beginFragment_snd, PS.reserve_re, PS.re_rest, PS.re_pos,
            PS.re_bad, PS.re_cm, beginFragment_pos, beginFragment_bad, List.cons_append, hd, ↓reduceIte]
          unfold strLoop
          rw [hy y (l' ++ y) (Nat.le_refl _)]
          simp only
          have := endFragment_re h2 (r ++ y)
          simp only [PS.re] at this ⊢
          rw [this]
    · simp [hd] at h

theorem lexString_local_err {o : ParseOptions} {s : PS} {l x : List Char} {q : Nat} {c : Char}
    (hs : s.rest = l ++ x) (h : lexString o s = .error (.unexpected q (some c)))
    (hlt : q < s.pos + utf8Len l) : ∀ y, lexString o (s.re (l ++ y)) = .error (.unexpected q (some c)) := by
  intro y
  cases l with
  | nil =>
    have := (lexString_err h).pos_le
    simp at hlt; omega
  | cons d l' =>
    unfold lexString at h ⊢
    simp only [PS.beginFragment_fst, PS.beginFragment_snd, beginFragment_rest, beginFragment_pos,
      beginFragment_bad, hs, List.cons_append, PS.reserve_re, PS.re_rest, PS.re_pos, PS.re_bad, PS.re_cm] at h ⊢
    by_cases hd : d = '"'
    · simp only [hd, ↓reduceIte] at h ⊢
      cases h1 : strLoop o s.bad [] none (l' ++ x) (s.pos + ('"' : Char).utf8Size) with
      | error e =>
        simp only [h1, Except.error.injEq] at h
        subst h
        unfold strLoop at h1 ⊢
        rw [strLoopAux_local_err o s.bad (l' ++ x) [] none l' x _ q c h1
          (by simp only [utf8Len_cons, hd] at hlt; omega) y (l' ++ y) (Nat.le_refl _)]
      | ok v =>
        obtain ⟨str', r', pos', q'⟩ := v
        simp only [h1] at h
        split at h
        · rename_i e h2
          simp only [Except.error.injEq] at h
          have := endFragment_err h2; subst h; cases this
        · cases h
    · simp only [hd, ↓reduceIte] at h ⊢
      exact h

theorem lexKeyColon_local {o : ParseOptions} {s s1 : PS} {key : List Char} {e : Nat} {l x : List Char}
    (hs : s.rest = l ++ x) (h : lexKeyColon o s = .ok (key, e, s1)) (hlt : s1.pos < s.pos + utf8Len l) :
    ∃ r, s1.rest = r ++ x ∧ ∀ y, lexKeyColon o (s.re (l ++ y)) = .ok (key, e, s1.re (r ++ y)) := by
  unfold lexKeyColon at h
  simp only [PS.beginFragment_fst, PS.beginFragment_snd] at h
  cases h1 : lexString o s.reserve with
  | error e => simp [h1] at h
  | ok v =>
    obtain ⟨key', sa⟩ := v
    simp only [h1] at h
    cases h2 : skipWs sa with
    | error e => simp [h2] at h
    | ok sb =>
      simp only [h2] at h
      cases h3 : expectChar ':' sb with
      | error e => simp [h3] at h
      | ok sc =>
        simp only [h3, Except.ok.injEq, Prod.mk.injEq] at h
        obtain ⟨rfl, rfl, rfl⟩ := h
        have g3 := (expectChar_adv h3).1.le
        have g2 := (skipWs_adv h2).1.le
        obtain ⟨ra, hra, hya⟩ := lexString_local (s := s.reserve) (l := l) (x := x) (by simpa using hs) h1
          (by simp only [beginFragment_pos]; omega)
        have ba := local_bound (lexString_adv h1) (by simpa using hs) hra
        simp only [beginFragment_pos] at ba
        obtain ⟨rb, hrb, hyb⟩ := skipWs_local hra h2 (by omega)
        have bb := local_bound (skipWs_adv h2) hra hrb
        obtain ⟨rc, hrc, hyc⟩ := expectChar_local hrb h3 (by omega)
        refine ⟨rc, hrc, fun y => ?_⟩
        unfold lexKeyColon
        simp only [PS.beginFragment_fst, PS.beginFragment_snd, PS.reserve_re, PS.re_cm, hya y, hyb y, hyc y]

theorem lexKeyColon_local_err {o : ParseOptions} {s : PS} {l x : List Char} {q : Nat} {c : Char}
    (hs : s.rest = l ++ x) (h : lexKeyColon o s = .error (.unexpected q (some c)))
    (hlt : q < s.pos + utf8Len l) : ∀ y, lexKeyColon o (s.re (l ++ y)) = .error (.unexpected q (some c)) := by
  intro y
  unfold lexKeyColon at h ⊢
  simp only [PS.beginFragment_fst, PS.beginFragment_snd, PS.reserve_re, PS.re_cm] at h ⊢
  cases h1 : lexString o s.reserve with
  | error e =>
    simp only [h1, Except.error.injEq] at h
    subst h
    rw [lexString_local_err (s := s.reserve) (l := l) (x := x) (by simpa using hs) h1 (by simpa using hlt) y]
  | ok v =>
    obtain ⟨key', sa⟩ := v
    simp only [h1] at h
    cases h2 : skipWs sa with
    | error e =>
      simp only [h2, Except.error.injEq] at h
      subst h
      exact absurd h2 skipWs_no_unexpected
    | ok sb =>
      simp only [h2] at h
      cases h3 : expectChar ':' sb with
      | error e =>
        simp only [h3, Except.error.injEq] at h
        subst h
        have g3 := (expectChar_err h3).pos_le
        have g2 := (skipWs_adv h2).1.le
        obtain ⟨ra, hra, hya⟩ := lexString_local (s := s.reserve) (l := l) (x := x) (by simpa using hs) h1
          (by simp only [beginFragment_pos]; omega)
        have ba := local_bound (lexString_adv h1) (by simpa using hs) hra
        simp only [beginFragment_pos] at ba
        obtain ⟨rb, hrb, hyb⟩ := skipWs_local hra h2 (by omega)
        have bb := local_bound (skipWs_adv h2) hra hrb
        rw [hya y]; simp only
        rw [hyb y]; simp only
        rw [expectChar_local_err hrb h3 (by omega) y]
      | ok sc => simp [h3] at h

/-! ## fragments -/

/-- a state strictly inside the prefix has a next character, and it belongs to the prefix -/
theorem head_of_lt {s : PS} {r x : List Char} (hr : s.rest = r ++ x) {b : Nat}
    (hb : s.pos + utf8Len r = b) (hlt : s.pos < b) : ∃ d r', r = d :: r' := by
  cases r with
  | nil => simp at hb; omega
  | cons d r' => exact ⟨d, r', rfl⟩

theorem startArray_local {s s1 : PS} {f : Fragment} {l x : List Char} (hs : s.rest = l ++ x)
    (h : startArray s = .ok (f, s1)) (hlt : s1.pos < s.pos + utf8Len l) :
    ∃ r, s1.rest = r ++ x ∧ ∀ y, startArray (s.re (l ++ y)) = .ok (f, s1.re (r ++ y)) := by
  unfold startArray at h
  simp only [PS.beginFragment_fst, PS.beginFragment_snd] at h
  cases h1 : expectChar '[' s.reserve with
  | error e => simp [h1] at h
  | ok sa =>
    simp only [h1] at h
    cases h2 : skipWs sa with
    | error e => simp [h2] at h
    | ok sb =>
      simp only [h2] at h
      have hsb : sb.pos ≤ s1.pos := by
        split at h
        · split at h
          · split at h
            · cases h
            · rename_i s3 h3
              simp only [Except.ok.injEq, Prod.mk.injEq] at h
              obtain ⟨_, rfl⟩ := h
              have := (endFragment_rest h3).2.1
              simp only [PS.adv] at this; omega
          · simp only [Except.ok.injEq, Prod.mk.injEq] at h; obtain ⟨_, rfl⟩ := h; exact Nat.le_refl _
        · simp only [Except.ok.injEq, Prod.mk.injEq] at h; obtain ⟨_, rfl⟩ := h; exact Nat.le_refl _
      have g2 := (skipWs_adv h2).1.le
      obtain ⟨ra, hra, hya⟩ := expectChar_local (s := s.reserve) (l := l) (x := x) (by simpa using hs) h1
        (by simp only [beginFragment_pos]; omega)
      have ba := local_bound (expectChar_adv h1) (by simpa using hs) hra
      simp only [beginFragment_pos] at ba
      obtain ⟨rb, hrb, hyb⟩ := skipWs_local hra h2 (by omega)
      have bb := local_bound (skipWs_adv h2) hra hrb
      obtain ⟨d, rb', rfl⟩ := head_of_lt hrb bb (by omega)
      simp only [hrb, List.cons_append] at h
      by_cases hd : d = ']'
      · simp only [hd, ↓reduceIte] at h
        split at h
        · cases h
        · rename_i s3 h3
          simp only [Except.ok.injEq, Prod.mk.injEq] at h
          obtain ⟨rfl, rfl⟩ := h
          obtain ⟨e1, _, _⟩ := endFragment_rest h3
          refine ⟨rb', by rw [e1]; rfl, fun y => ?_⟩
          unfold startArray
          simp only [PS.beginFragment_fst, PS.beginFragment_snd, PS.reserve_re, PS.re_cm, hya y, hyb y,
            PS.re_rest, List.cons_append, hd, ↓reduceIte, PS.adv_re]
          have := endFragment_re h3 (rb' ++ y)
          simp only [PS.re, PS.adv] at this ⊢
          rw [this]
      · simp only [hd, ↓reduceIte, Except.ok.injEq, Prod.mk.injEq] at h
        obtain ⟨rfl, rfl⟩ := h
        refine ⟨d :: rb', hrb, fun y => ?_⟩
        unfold startArray
        simp only [PS.beginFragment_fst, PS.beginFragment_snd, PS.reserve_re, PS.re_cm, hya y, hyb y,
          PS.re_rest, List.cons_append, hd, ↓reduceIte]

theorem startArray_local_err {s : PS} {l x : List Char} {q : Nat} {c : Char} (hs : s.rest = l ++ x)
    (h : startArray s = .error (.unexpected q (some c))) (hlt : q < s.pos + utf8Len l) :
    ∀ y, startArray (s.re (l ++ y)) = .error (.unexpected q (some c)) := by
  intro y
  unfold startArray at h ⊢
  simp only [PS.beginFragment_fst, PS.beginFragment_snd, PS.reserve_re, PS.re_cm] at h ⊢
  cases h1 : expectChar '[' s.reserve with
  | error e =>
    simp only [h1, Except.error.injEq] at h
    subst h
    rw [expectChar_local_err (s := s.reserve) (l := l) (x := x) (by simpa using hs) h1 (by simpa using hlt) y]
  | ok sa =>
    simp only [h1] at h
    cases h2 : skipWs sa with
    | error e =>
      simp only [h2, Except.error.injEq] at h
      subst h
      exact absurd h2 skipWs_no_unexpected
    | ok sb =>
      simp only [h2] at h
      split at h
      · split at h
        · split at h
          · rename_i e h3
            simp only [Except.error.injEq] at h
            have := endFragment_err h3; subst h; cases this
          · cases h
        · cases h
      · cases h

theorem startObjectKey_local {o : ParseOptions} {i : Nat} {s s1 : PS} {f : Fragment} {l x : List Char}
    (hs : s.rest = l ++ x) (h : startObjectKey o i s = .ok (f, s1)) (hlt : s1.pos < s.pos + utf8Len l) :
    ∃ r, s1.rest = r ++ x ∧ ∀ y, startObjectKey o i (s.re (l ++ y)) = .ok (f, s1.re (r ++ y)) := by
  unfold startObjectKey at h
  cases h1 : lexKeyColon o s with
  | error e => simp [h1] at h
  | ok v =>
    obtain ⟨key, e, s3⟩ := v
    simp only [h1, Except.ok.injEq, Prod.mk.injEq] at h
    obtain ⟨rfl, rfl⟩ := h
    obtain ⟨r, hr, hy⟩ := lexKeyColon_local hs h1 hlt
    exact ⟨r, hr, fun y => by unfold startObjectKey; simp only [hy y]⟩

theorem startObjectKey_local_err {o : ParseOptions} {i : Nat} {s : PS} {l x : List Char} {q : Nat} {c : Char}
    (hs : s.rest = l ++ x) (h : startObjectKey o i s = .error (.unexpected q (some c)))
    (hlt : q < s.pos + utf8Len l) :
    ∀ y, startObjectKey o i (s.re (l ++ y)) = .error (.unexpected q (some c)) := by
  intro y
  unfold startObjectKey at h ⊢
  cases h1 : lexKeyColon o s with
  | error e =>
    simp only [h1, Except.error.injEq] at h
    subst h
    rw [lexKeyColon_local_err hs h1 hlt y]
  | ok v => obtain ⟨key, e, s3⟩ := v; simp [h1] at h

theorem startObject_local {o : ParseOptions} {s s1 : PS} {f : Fragment} {l x : List Char}
    (hs : s.rest = l ++ x) (h : startObject o s = .ok (f, s1)) (hlt : s1.pos < s.pos + utf8Len l) :
    ∃ r, s1.rest = r ++ x ∧ ∀ y, startObject o (s.re (l ++ y)) = .ok (f, s1.re (r ++ y)) := by
  have hadv := startObject_adv h
  unfold startObject at h
  simp only [PS.beginFragment_fst, PS.beginFragment_snd] at h
  cases h1 : expectChar '{' s.reserve with
  | error e => simp [h1] at h
  | ok sa =>
    simp only [h1] at h
    cases h2 : skipWs sa with
    | error e => simp [h2] at h
    | ok sb =>
      simp only [h2] at h
      have hsb : sb.pos ≤ s1.pos := by
        split at h
        · split at h
          · split at h
            · cases h
            · rename_i s3 h3
              simp only [Except.ok.injEq, Prod.mk.injEq] at h
              obtain ⟨_, rfl⟩ := h
              have := (endFragment_rest h3).2.1
              simp only [PS.adv] at this; omega
          · exact (startObjectKey_adv h).1.le
        · exact (startObjectKey_adv h).1.le
      have g2 := (skipWs_adv h2).1.le
      obtain ⟨ra, hra, hya⟩ := expectChar_local (s := s.reserve) (l := l) (x := x) (by simpa using hs) h1
        (by simp only [beginFragment_pos]; omega)
      have ba := local_bound (expectChar_adv h1) (by simpa using hs) hra
      simp only [beginFragment_pos] at ba
      obtain ⟨rb, hrb, hyb⟩ := skipWs_local hra h2 (by omega)
      have bb := local_bound (skipWs_adv h2) hra hrb
      obtain ⟨d, rb', rfl⟩ := head_of_lt hrb bb (by omega)
      simp only [hrb, List.cons_append] at h
      by_cases hd : d = '}'
      · simp only [hd, ↓reduceIte] at h
        split at h
        · cases h
        · rename_i s3 h3
          simp only [Except.ok.injEq, Prod.mk.injEq] at h
          obtain ⟨rfl, rfl⟩ := h
          obtain ⟨e1, _, _⟩ := endFragment_rest h3
          refine ⟨rb', by rw [e1]; rfl, fun y => ?_⟩
          unfold startObject
          simp only [PS.beginFragment_fst, PS.beginFragment_snd, PS.reserve_re, PS.re_cm, hya y, hyb y,
            PS.re_rest, List.cons_append, hd, ↓reduceIte, PS.adv_re]
          have := endFragment_re h3 (rb' ++ y)
          simp only [PS.re, PS.adv] at this ⊢
          rw [this]
      · simp only [hd, ↓reduceIte] at h
        obtain ⟨r, hr, hy⟩ := startObjectKey_local hrb h (by omega)
        refine ⟨r, hr, fun y => ?_⟩
        unfold startObject
        simp only [PS.beginFragment_fst, PS.beginFragment_snd, PS.reserve_re, PS.re_cm, hya y, hyb y,
          PS.re_rest, List.cons_append, hd, ↓reduceIte]
        exact hy y

theorem startObject_local_err {o : ParseOptions} {s : PS} {l x : List Char} {q : Nat} {c : Char}
    (hs : s.rest = l ++ x) (h : startObject o s = .error (.unexpected q (some c)))
    (hlt : q < s.pos + utf8Len l) : ∀ y, startObject o (s.re (l ++ y)) = .error (.unexpected q (some c)) := by
  intro y
  unfold startObject at h ⊢
  simp only [PS.beginFragment_fst, PS.beginFragment_snd, PS.reserve_re, PS.re_cm] at h ⊢
  cases h1 : expectChar '{' s.reserve with
  | error e =>
    simp only [h1, Except.error.injEq] at h
    subst h
    rw [expectChar_local_err (s := s.reserve) (l := l) (x := x) (by simpa using hs) h1 (by simpa using hlt) y]
  | ok sa =>
    simp only [h1] at h
    cases h2 : skipWs sa with
    | error e =>
      simp only [h2, Except.error.injEq] at h
      subst h
      exact absurd h2 skipWs_no_unexpected
    | ok sb =>
      simp only [h2] at h
      have g2 := (skipWs_adv h2).1.le
      have hq : sb.pos ≤ q := by
        split at h
        · split at h
          · split at h
            · rename_i e h3
              simp only [Except.error.injEq] at h
              have := endFragment_err h3; subst h; cases this
            · cases h
          · exact (startObjectKey_err h).pos_le
        · exact (startObjectKey_err h).pos_le
      obtain ⟨ra, hra, hya⟩ := expectChar_local (s := s.reserve) (l := l) (x := x) (by simpa using hs) h1
        (by simp only [beginFragment_pos]; omega)
      have ba := local_bound (expectChar_adv h1) (by simpa using hs) hra
      simp only [beginFragment_pos] at ba
      obtain ⟨rb, hrb, hyb⟩ := skipWs_local hra h2 (by omega)
      have bb := local_bound (skipWs_adv h2) hra hrb
      obtain ⟨d, rb', rfl⟩ := head_of_lt hrb bb (by omega)
      simp only [hrb, List.cons_append] at h
      rw [hya y]; simp only
      rw [hyb y]; simp only [PS.re_rest, List.cons_append]
      by_cases hd : d = '}'
      · simp only [hd, ↓reduceIte] at h
        split at h
        · rename_i e h3
          simp only [Except.error.injEq] at h
          have := endFragment_err h3; subst h; cases this
        · cases h
      · simp only [hd, ↓reduceIte] at h ⊢
        exact startObjectKey_local_err hrb h (by omega) y

theorem contArray_local {i : Nat} {s s1 : PS} {k : ArrCont} {l x : List Char} (hs : s.rest = l ++ x)
    (h : contArray i s = .ok (k, s1)) (hlt : s1.pos < s.pos + utf8Len l) :
    ∃ r, s1.rest = r ++ x ∧ ∀ y, contArray i (s.re (l ++ y)) = .ok (k, s1.re (r ++ y)) := by
  have hadv := contArray_adv h
  unfold contArray at h
  cases h2 : skipWs s with
  | error e => simp [h2] at h
  | ok sb =>
    simp only [h2] at h
    have g2 := (skipWs_adv h2).1.le
    have hsb : sb.pos ≤ s1.pos := by
      split at h
      · cases h
      · split at h
        · simp only [Except.ok.injEq, Prod.mk.injEq] at h; obtain ⟨_, rfl⟩ := h; simp [PS.adv]
        · split at h
          · split at h
            · cases h
            · rename_i s3 h3
              simp only [Except.ok.injEq, Prod.mk.injEq] at h
              obtain ⟨_, rfl⟩ := h
              have := (endFragment_rest h3).2.1
              simp only [PS.adv] at this; omega
          · cases h
    obtain ⟨rb, hrb, hyb⟩ := skipWs_local hs h2 (by omega)
    have bb := local_bound (skipWs_adv h2) hs hrb
    obtain ⟨d, rb', rfl⟩ := head_of_lt hrb bb (by omega)
    simp only [hrb, List.cons_append] at h
    by_cases hc : d = ','
    · simp only [hc, ↓reduceIte, Except.ok.injEq, Prod.mk.injEq] at h
      obtain ⟨rfl, rfl⟩ := h
      refine ⟨rb', rfl, fun y => ?_⟩
      unfold contArray
      simp only [hyb y, PS.re_rest, List.cons_append, hc, ↓reduceIte, PS.adv_re]
      rfl
    · simp only [hc, ↓reduceIte] at h
      by_cases hd : d = ']'
      · simp only [hd, ↓reduceIte] at h
        split at h
        · cases h
        · rename_i s3 h3
          simp only [Except.ok.injEq, Prod.mk.injEq] at h
          obtain ⟨rfl, rfl⟩ := h
          obtain ⟨e1, _, _⟩ := endFragment_rest h3
          refine ⟨rb', by rw [e1]; rfl, fun y => ?_⟩
          unfold contArray
          have hne : ¬ ((']' : Char) = ',') := by decide
          simp only [hyb y, PS.re_rest, List.cons_append, hd, hne, ↓reduceIte, PS.adv_re]
          have := endFragment_re h3 (rb' ++ y)
          simp only [PS.re, PS.adv] at this ⊢
          rw [this]
      · simp [hd] at h

theorem contArray_local_err {i : Nat} {s : PS} {l x : List Char} {q : Nat} {c : Char} (hs : s.rest = l ++ x)
    (h : contArray i s = .error (.unexpected q (some c))) (hlt : q < s.pos + utf8Len l) :
    ∀ y, contArray i (s.re (l ++ y)) = .error (.unexpected q (some c)) := by
  intro y
  have herr := (contArray_err h).pos_le
  unfold contArray at h ⊢
  cases h2 : skipWs s with
  | error e =>
    simp only [h2, Except.error.injEq] at h
    subst h
    exact absurd h2 skipWs_no_unexpected
  | ok sb =>
    simp only [h2] at h
    have g2 := (skipWs_adv h2).1.le
    have hq : sb.pos ≤ q := by
      split at h
      · unfold PS.eofErr at h; split at h <;> cases h
      · split at h
        · cases h
        · split at h
          · split at h
            · rename_i e h3
              simp only [Except.error.injEq] at h
              have := endFragment_err h3; subst h; cases this
            · cases h
          · cases h; exact Nat.le_refl _
    obtain ⟨rb, hrb, hyb⟩ := skipWs_local hs h2 (by omega)
    have bb := local_bound (skipWs_adv h2) hs hrb
    obtain ⟨d, rb', rfl⟩ := head_of_lt hrb bb (by omega)
    simp only [hrb, List.cons_append] at h
    rw [hyb y]; simp only [PS.re_rest, List.cons_append]
    by_cases hc : d = ','
    · simp [hc] at h
    · simp only [hc, ↓reduceIte] at h ⊢
      by_cases hd : d = ']'
      · simp only [hd, ↓reduceIte] at h
        split at h
        · rename_i e h3
          simp only [Except.error.injEq] at h
          have := endFragment_err h3; subst h; cases this
        · cases h
      · simp only [hd, ↓reduceIte] at h ⊢
        exact h

theorem contObject_local {o : ParseOptions} {i : Nat} {s s1 : PS} {k : ObjCont} {l x : List Char}
    (hs : s.rest = l ++ x) (h : contObject o i s = .ok (k, s1)) (hlt : s1.pos < s.pos + utf8Len l) :
    ∃ r, s1.rest = r ++ x ∧ ∀ y, contObject o i (s.re (l ++ y)) = .ok (k, s1.re (r ++ y)) := by
  unfold contObject at h
  cases h2 : skipWs s with
  | error e => simp [h2] at h
  | ok sb =>
    simp only [h2] at h
    have g2 := (skipWs_adv h2).1.le
    have hsb : sb.pos ≤ s1.pos := by
      split at h
      · cases h
      · rename_i d r hr
        split at h
        · split at h
          · cases h
          · rename_i sc h3
            split at h
            · cases h
            · rename_i key e sd h4
              simp only [Except.ok.injEq, Prod.mk.injEq] at h
              obtain ⟨_, rfl⟩ := h
              have a3 := (skipWs_adv h3).1.le
              have a4 := (lexKeyColon_adv h4).1.le
              simp only [PS.adv] at a3; omega
        · split at h
          · split at h
            · cases h
            · rename_i s3 h3
              simp only [Except.ok.injEq, Prod.mk.injEq] at h
              obtain ⟨_, rfl⟩ := h
              have := (endFragment_rest h3).2.1
              simp only [PS.adv] at this; omega
          · cases h
    obtain ⟨rb, hrb, hyb⟩ := skipWs_local hs h2 (by omega)
    have bb := local_bound (skipWs_adv h2) hs hrb
    obtain ⟨d, rb', rfl⟩ := head_of_lt hrb bb (by omega)
    simp only [hrb, List.cons_append] at h
    by_cases hc : d = ','
    · simp only [hc, ↓reduceIte] at h
      cases h3 : skipWs (sb.adv ',' (rb' ++ x)) with
      | error e => simp [h3] at h
      | ok sc =>
        simp only [h3] at h
        cases h4 : lexKeyColon o sc with
        | error e => simp [h4] at h
        | ok v =>
          obtain ⟨key, e, sd⟩ := v
          simp only [h4, Except.ok.injEq, Prod.mk.injEq] at h
          obtain ⟨rfl, rfl⟩ := h
          have a4 := (lexKeyColon_adv h4).1.le
          have hadv : (sb.adv ',' (rb' ++ x)).rest = rb' ++ x := rfl
          have bc0 : (sb.adv ',' (rb' ++ x)).pos + utf8Len rb' = s.pos + utf8Len l := by
            simp only [PS.adv, utf8Len_cons, hc] at bb ⊢; omega
          obtain ⟨rc, hrc, hyc⟩ := skipWs_local hadv h3 (by omega)
          have bc := local_bound (skipWs_adv h3) hadv hrc
          obtain ⟨rd, hrd, hyd⟩ := lexKeyColon_local hrc h4 (by omega)
          refine ⟨rd, hrd, fun y => ?_⟩
          unfold contObject
          simp only [hyb y, PS.re_rest, List.cons_append, hc, ↓reduceIte, PS.adv_re]
          have : (sb.adv ',' (rb' ++ y)) = (sb.adv ',' (rb' ++ x)).re (rb' ++ y) := rfl
          rw [this, hyc y]; simp only
          rw [hyd y]
    · simp only [hc, ↓reduceIte] at h
      by_cases hd : d = '}'
      · simp only [hd, ↓reduceIte] at h
        split at h
        · cases h
        · rename_i s3 h3
          simp only [Except.ok.injEq, Prod.mk.injEq] at h
          obtain ⟨rfl, rfl⟩ := h
          obtain ⟨e1, _, _⟩ := endFragment_rest h3
          refine ⟨rb', by rw [e1]; rfl, fun y => ?_⟩
          unfold contObject
          have hne : ¬ (('}' : Char) = ',') := by decide
          simp only [hyb y, PS.re_rest, List.cons_append, hd, hne, ↓reduceIte, PS.adv_re]
          have := endFragment_re h3 (rb' ++ y)
          simp only [PS.re, PS.adv] at this ⊢
          rw [this]
      · simp [hd] at h

theorem contObject_local_err {o : ParseOptions} {i : Nat} {s : PS} {l x : List Char} {q : Nat} {c : Char}
    (hs : s.rest = l ++ x) (h : contObject o i s = .error (.unexpected q (some c)))
    (hlt : q < s.pos + utf8Len l) : ∀ y, contObject o i (s.re (l ++ y)) = .error (.unexpected q (some c)) := by
  intro y
  unfold contObject at h ⊢
  cases h2 : skipWs s with
  | error e =>
    simp only [h2, Except.error.injEq] at h
    subst h
    exact absurd h2 skipWs_no_unexpected
  | ok sb =>
    simp only [h2] at h
    have g2 := (skipWs_adv h2).1.le
    have hq : sb.pos ≤ q := by
      split at h
      · unfold PS.eofErr at h; split at h <;> cases h
      · rename_i d r hr
        split at h
        · split at h
          · rename_i e h3
            simp only [Except.error.injEq] at h; subst h
            exact absurd h3 skipWs_no_unexpected
          · rename_i sc h3
            split at h
            · rename_i e h4
              simp only [Except.error.injEq] at h; subst h
              have a3 := (skipWs_adv h3).1.le
              have := (lexKeyColon_err h4).pos_le
              simp only [PS.adv] at a3; omega
            · cases h
        · split at h
          · split at h
            · rename_i e h3
              simp only [Except.error.injEq] at h
              have := endFragment_err h3; subst h; cases this
            · cases h
          · cases h; exact Nat.le_refl _
    obtain ⟨rb, hrb, hyb⟩ := skipWs_local hs h2 (by omega)
    have bb := local_bound (skipWs_adv h2) hs hrb
    obtain ⟨d, rb', rfl⟩ := head_of_lt hrb bb (by omega)
    simp only [hrb, List.cons_append] at h
    rw [hyb y]; simp only [PS.re_rest, List.cons_append]
    by_cases hc : d = ','
    · simp only [hc, ↓reduceIte] at h ⊢
      cases h3 : skipWs (sb.adv ',' (rb' ++ x)) with
      | error e =>
        simp only [h3, Except.error.injEq] at h; subst h
        exact absurd h3 skipWs_no_unexpected
      | ok sc =>
        simp only [h3] at h
        cases h4 : lexKeyColon o sc with
        | error e =>
          simp only [h4, Except.error.injEq] at h; subst h
          have a4 := (lexKeyColon_err h4).pos_le
          have hadv : (sb.adv ',' (rb' ++ x)).rest = rb' ++ x := rfl
          have bc0 : (sb.adv ',' (rb' ++ x)).pos + utf8Len rb' = s.pos + utf8Len l := by
            simp only [PS.adv, utf8Len_cons, hc] at bb ⊢; omega
          obtain ⟨rc, hrc, hyc⟩ := skipWs_local hadv h3 (by omega)
          have bc := local_bound (skipWs_adv h3) hadv hrc
          have : ((sb.re (',' :: (rb' ++ y))).adv ',' (rb' ++ y)) = (sb.adv ',' (rb' ++ x)).re (rb' ++ y) := rfl
          rw [this, hyc y]; simp only
          rw [lexKeyColon_local_err hrc h4 (by omega) y]
        | ok v => obtain ⟨key, e, sd⟩ := v; simp [h4] at h
    · simp only [hc, ↓reduceIte] at h ⊢
      by_cases hd : d = '}'
      · simp only [hd, ↓reduceIte] at h
        split at h
        · rename_i e h3
          simp only [Except.error.injEq] at h
          have := endFragment_err h3; subst h; cases this
        · cases h
      · simp only [hd, ↓reduceIte] at h ⊢
        exact h

theorem parseFragment_local {o : ParseOptions} {ctx : Ctx} {s s1 : PS} {f : Fragment} {l x : List Char}
    (hs : s.rest = l ++ x) (h : parseFragment o ctx s = .ok (f, s1)) (hlt : s1.pos < s.pos + utf8Len l) :
    ∃ r, s1.rest = r ++ x ∧ ∀ y, parseFragment o ctx (s.re (l ++ y)) = .ok (f, s1.re (r ++ y)) := by
  unfold parseFragment at h
  cases h2 : skipWs s with
  | error e => simp [h2] at h
  | ok sb =>
    simp only [h2] at h
    have g2 := (skipWs_adv h2).1.le
    have hsb : sb.pos ≤ s1.pos := by
      split at h
      · cases h
      · repeat' (split at h)
        all_goals (first | (cases h; done) | skip)
        all_goals (try simp only [Except.ok.injEq, Prod.mk.injEq] at h)
        · obtain ⟨_, rfl⟩ := h; exact (lexNull_adv ‹_›).1.le
        · obtain ⟨_, rfl⟩ := h; exact (lexBool_adv ‹_›).1.le
        · obtain ⟨_, rfl⟩ := h; exact (lexNumber_adv ‹_›).1.le
        · obtain ⟨_, rfl⟩ := h; exact (lexString_adv ‹_›).1.le
        · exact (startArray_adv h).1.le
        · exact (startObject_adv h).1.le
    obtain ⟨rb, hrb, hyb⟩ := skipWs_local hs h2 (by omega)
    have bb := local_bound (skipWs_adv h2) hs hrb
    obtain ⟨d, rb', rfl⟩ := head_of_lt hrb bb (by omega)
    simp only [hrb, List.cons_append] at h
    have hgoal : ∀ (g : PS → Except PErr (Fragment × PS)),
        (∃ r, s1.rest = r ++ x ∧ ∀ y, g (sb.re (d :: rb' ++ y)) = .ok (f, s1.re (r ++ y))) →
        (∀ y, parseFragment o ctx (s.re (l ++ y)) = g (sb.re (d :: rb' ++ y))) →
        ∃ r, s1.rest = r ++ x ∧ ∀ y, parseFragment o ctx (s.re (l ++ y)) = .ok (f, s1.re (r ++ y)) := by
      intro g ⟨r, hr, hy⟩ hg
      exact ⟨r, hr, fun y => by rw [hg y, hy y]⟩
    by_cases h_n : d = 'n'
    · simp only [h_n, ↓reduceIte] at h
      cases h3 : lexNull sb with
      | error e => simp [h3] at h
      | ok s3 =>
        simp only [h3, Except.ok.injEq, Prod.mk.injEq] at h
        obtain ⟨rfl, rfl⟩ := h
        obtain ⟨r, hr, hy⟩ := lexNull_local hrb h3 (by omega)
        refine ⟨r, hr, fun y => ?_⟩
        unfold parseFragment
        simp only [hyb y, PS.re_rest, List.cons_append, h_n, ↓reduceIte]
        rw [h_n] at hy; simp only [List.cons_append] at hy
        rw [hy y]
    · simp only [h_n, ↓reduceIte] at h
      by_cases h_b : (d = 't' || d = 'f') = true
      · simp only [h_b, ↓reduceIte] at h
        cases h3 : lexBool sb with
        | error e => simp [h3] at h
        | ok v =>
          obtain ⟨b, s3⟩ := v
          simp only [h3, Except.ok.injEq, Prod.mk.injEq] at h
          obtain ⟨rfl, rfl⟩ := h
          obtain ⟨r, hr, hy⟩ := lexBool_local hrb h3 (by omega)
          refine ⟨r, hr, fun y => ?_⟩
          unfold parseFragment
          simp only [hyb y, PS.re_rest, List.cons_append, h_n, h_b, ↓reduceIte]
          simp only [List.cons_append] at hy
          rw [hy y]
      · simp only [h_b, Bool.false_eq_true, ↓reduceIte] at h
        by_cases h_d : (isDigit d || d = '-') = true
        · simp only [h_d, ↓reduceIte] at h
          cases h3 : lexNumber ctx sb with
          | error e => simp [h3] at h
          | ok v =>
            obtain ⟨n, s3⟩ := v
            simp only [h3, Except.ok.injEq, Prod.mk.injEq] at h
            obtain ⟨rfl, rfl⟩ := h
            obtain ⟨r, hr, hy⟩ := lexNumber_local hrb h3 (by omega)
            refine ⟨r, hr, fun y => ?_⟩
            unfold parseFragment
            simp only [hyb y, PS.re_rest, List.cons_append, h_n, h_b, h_d, Bool.false_eq_true, ↓reduceIte]
            simp only [List.cons_append] at hy
            rw [hy y]
        · simp only [h_d, Bool.false_eq_true, ↓reduceIte] at h
          by_cases h_q : d = '"'
          · simp only [h_q, ↓reduceIte] at h
            cases h3 : lexString o sb with
            | error e => simp [h3] at h
            | ok v =>
              obtain ⟨str, s3⟩ := v
              simp only [h3, Except.ok.injEq, Prod.mk.injEq] at h
              obtain ⟨rfl, rfl⟩ := h
              obtain ⟨r, hr, hy⟩ := lexString_local hrb h3 (by omega)
              refine ⟨r, hr, fun y => ?_⟩
              unfold parseFragment
              simp only [hyb y, PS.re_rest, List.cons_append, h_n, h_b, h_d, Bool.false_eq_true, ↓reduceIte]
              rw [if_pos h_q]
              simp only [List.cons_append] at hy
              rw [hy y]
          · simp only [h_q, ↓reduceIte] at h
            by_cases h_a : d = '['
            · simp only [h_a, ↓reduceIte] at h
              obtain ⟨r, hr, hy⟩ := startArray_local hrb h (by omega)
              refine ⟨r, hr, fun y => ?_⟩
              unfold parseFragment
              simp only [hyb y, PS.re_rest, List.cons_append, h_n, h_b, h_d, h_q, Bool.false_eq_true, ↓reduceIte]
              rw [if_pos h_a]
              simp only [List.cons_append] at hy
              exact hy y
            · simp only [h_a, ↓reduceIte] at h
              by_cases h_o : d = '{'
              · simp only [h_o, ↓reduceIte] at h
                obtain ⟨r, hr, hy⟩ := startObject_local hrb h (by omega)
                refine ⟨r, hr, fun y => ?_⟩
                unfold parseFragment
                simp only [hyb y, PS.re_rest, List.cons_append, h_n, h_b, h_d, h_q, h_a, Bool.false_eq_true, ↓reduceIte]
                rw [if_pos h_o]
                simp only [List.cons_append] at hy
                exact hy y
              · simp [h_o] at h

theorem parseFragment_local_err {o : ParseOptions} {ctx : Ctx} {s : PS} {l x : List Char} {q : Nat} {c : Char}
    (hs : s.rest = l ++ x) (h : parseFragment o ctx s = .error (.unexpected q (some c)))
    (hlt : q < s.pos + utf8Len l) :
    ∀ y, parseFragment o ctx (s.re (l ++ y)) = .error (.unexpected q (some c)) := by
  intro y
  unfold parseFragment at h ⊢
  cases h2 : skipWs s with
  | error e =>
    simp only [h2, Except.error.injEq] at h
    subst h
    exact absurd h2 skipWs_no_unexpected
  | ok sb =>
    simp only [h2] at h
    have g2 := (skipWs_adv h2).1.le
    have hq : sb.pos ≤ q := by
      split at h
      · unfold PS.eofErr at h; split at h <;> cases h
      · repeat' (split at h)
        all_goals (first | (cases h; done) | skip)
        all_goals (try simp only [Except.error.injEq] at h)
        · subst h; exact (lexNull_err ‹_›).pos_le
        · subst h; exact (lexBool_err ‹_›).pos_le
        · subst h; exact (lexNumber_err ‹_›).pos_le
        · subst h; exact (lexString_err ‹_›).pos_le
        · exact (startArray_err h).pos_le
        · exact (startObject_err h).pos_le
        · cases h; exact Nat.le_refl _
    obtain ⟨rb, hrb, hyb⟩ := skipWs_local hs h2 (by omega)
    have bb := local_bound (skipWs_adv h2) hs hrb
    obtain ⟨d, rb', rfl⟩ := head_of_lt hrb bb (by omega)
    simp only [hrb, List.cons_append] at h
    rw [hyb y]; simp only [PS.re_rest, List.cons_append]
    by_cases h_n : d = 'n'
    · rw [if_pos h_n] at h ⊢
      cases h3 : lexNull sb with
      | error e =>
        simp only [h3, Except.error.injEq] at h; subst h
        have := lexNull_local_err hrb h3 (by omega) y
        simp only [List.cons_append] at this
        rw [this]
      | ok s3 => simp [h3] at h
    · rw [if_neg h_n] at h ⊢
      by_cases h_b : (d = 't' || d = 'f') = true
      · rw [if_pos h_b] at h ⊢
        cases h3 : lexBool sb with
        | error e =>
          simp only [h3, Except.error.injEq] at h; subst h
          have := lexBool_local_err hrb h3 (by omega) y
          simp only [List.cons_append] at this
          rw [this]
        | ok v => obtain ⟨b, s3⟩ := v; simp [h3] at h
      · rw [if_neg h_b] at h ⊢
        by_cases h_d : (isDigit d || d = '-') = true
        · rw [if_pos h_d] at h ⊢
          cases h3 : lexNumber ctx sb with
          | error e =>
            simp only [h3, Except.error.injEq] at h; subst h
            have := lexNumber_local_err hrb h3 (by omega) y
            simp only [List.cons_append] at this
            rw [this]
          | ok v => obtain ⟨n, s3⟩ := v; simp [h3] at h
        · rw [if_neg h_d] at h ⊢
          by_cases h_q : d = '"'
          · rw [if_pos h_q] at h ⊢
            cases h3 : lexString o sb with
            | error e =>
              simp only [h3, Except.error.injEq] at h; subst h
              have := lexString_local_err hrb h3 (by omega) y
              simp only [List.cons_append] at this
              rw [this]
            | ok v => obtain ⟨str, s3⟩ := v; simp [h3] at h
          · rw [if_neg h_q] at h ⊢
            by_cases h_a : d = '['
            · rw [if_pos h_a] at h ⊢
              have := startArray_local_err hrb h (by omega) y
              simp only [List.cons_append] at this
              exact this
            · rw [if_neg h_a] at h ⊢
              by_cases h_o : d = '{'
              · rw [if_pos h_o] at h ⊢
                have := startObject_local_err hrb h (by omega) y
                simp only [List.cons_append] at this
                exact this
              · rw [if_neg h_o] at h ⊢
                exact h

end JsonVerif
