import JsonVerif.Spec.MacroDoc
/-! # `json!` builds the value the same literal denotes as JSON (C19) -/
namespace JsonVerif

theorem keyOf_keyTok (env : List Char → Option (List Char)) (st : KeyStyle) (k : List Char)
    (h : match st with | .var x => env x = some k | _ => True) : keyOf env [keyTok st k] = some k := by
  cases st with
  | lit => rfl
  | paren => rfl
  | var x => simpa [keyTok, keyOf] using h

theorem docTok_not_sep (d : Doc) : docTok d ≠ .comma ∧ docTok d ≠ .colon := by
  cases d with
  | bool b => cases b <;> simp [docTok]
  | _ => simp [docTok]

mutual
theorem expandTok_doc (env : List Char → Option (List Char)) :
    ∀ d : Doc, EnvOk env d → expandTok env (docTok d) = some (docValue d)
  | .null, _ => rfl
  | .bool true, _ => rfl
  | .bool false, _ => rfl
  | .str _, _ => rfl
  | .int _, _ => rfl
  | .float _ _, _ => rfl
  | .arr items tr, h => by
    simp only [docTok, expandTok, docValue]
    rw [munchArray_items env items tr [] h]; simp
  | .obj es tr, h => by
    simp only [docTok, expandTok, docValue]
    rw [munchObject_entries env es tr [] h]; simp
theorem munchArray_items (env : List Char → Option (List Char)) :
    ∀ (items : List Doc) (tr : Bool) (acc : List JValue), EnvOkL env items →
      munchArray env acc false (itemsToks items tr) = some (acc ++ itemsValues items)
  | [], _, acc, _ => by simp [itemsToks, munchArray, itemsValues]
  | [d], tr, acc, h => by
    have hd := expandTok_doc env d h.1
    have hs := docTok_not_sep d
    simp only [itemsToks, itemsValues]
    rw [munchArray_elem env acc (docTok d) _ hs.1 hs.2, hd]
    cases tr <;> simp [munchArray]
  | d :: d' :: r, tr, acc, h => by
    have hd := expandTok_doc env d h.1
    have hs := docTok_not_sep d
    simp only [itemsToks, itemsValues]
    rw [munchArray_elem env acc (docTok d) _ hs.1 hs.2, hd]
    simp only [munchArray]
    rw [munchArray_items env (d' :: r) tr (acc ++ [docValue d]) h.2]
    simp [itemsValues]
/-- the element rule fires on a token that is neither `,` nor `:` -/
theorem munchArray_elem (env : List Char → Option (List Char)) (acc : List JValue) (t : Tok)
    (rest : List Tok) (h1 : t ≠ .comma) (h2 : t ≠ .colon) :
    munchArray env acc false (t :: rest) =
      match expandTok env t with
      | some v => munchArray env (acc ++ [v]) true rest
      | none => none := by
  cases t with
  | comma => exact absurd rfl h1
  | colon => exact absurd rfl h2
  | _ => simp only [munchArray]; split <;> simp_all
theorem munchObject_entries (env : List Char → Option (List Char)) :
    ∀ (es : List (KeyStyle × List Char × Doc)) (tr : Bool) (acc : List (List Char × JValue)),
      EnvOkM env es →
      munchObject env acc false (entriesToks es tr) = some (acc ++ entriesValues es)
  | [], _, acc, _ => by simp [entriesToks, munchObject, entriesValues]
  | [(st, k, d)], tr, acc, h => by
    have hd := expandTok_doc env d h.2.1
    have hk := keyOf_keyTok env st k h.1
    simp only [entriesToks, entriesValues]
    rw [munchObject_entry env acc (keyTok st k) (docTok d) _, hk, hd]
    cases tr <;> simp [munchObject]
  | (st, k, d) :: e :: r, tr, acc, h => by
    have hd := expandTok_doc env d h.2.1
    have hk := keyOf_keyTok env st k h.1
    simp only [entriesToks, entriesValues]
    rw [munchObject_entry env acc (keyTok st k) (docTok d) _, hk, hd]
    simp only [munchObject]
    rw [munchObject_entries env (e :: r) tr (acc ++ [(k, docValue d)]) h.2.2]
    simp [entriesValues]
theorem munchObject_entry (env : List Char → Option (List Char)) (acc : List (List Char × JValue))
    (k t : Tok) (rest : List Tok) :
    munchObject env acc false (k :: .colon :: t :: rest) =
      match keyOf env [k], expandTok env t with
      | some key, some v => munchObject env (acc ++ [(key, v)]) true rest
      | _, _ => none := by
  simp only [munchObject]; split <;> simp_all
end

/-- **C19.** For every JSON document written as a `json!` literal — nested arrays and objects,
    optional trailing commas, string / integer / float / boolean / null literals, literal,
    parenthesized or variable keys, duplicate keys — the macro expansion builds exactly the value the
    document denotes, entries in written order, duplicates preserved. -/
theorem json_macro_eq (env : List Char → Option (List Char)) (d : Doc) (h : EnvOk env d) :
    expandJson env [docTok d] = some (docValue d) := expandTok_doc env d h

end JsonVerif
