import JsonVerif.Lemmas.TokComplete
/-!
# Every failing machine step can be completed (lower bound of C07, step level)
-/
namespace JsonVerif

/-- consumed exactly `l`: the two cuts of the input coincide -/
theorem cut_eq {l x w t : List Char} (h : l ++ x = w ++ t) (he : utf8Len w = utf8Len l) : l = w ∧ t = x := by
  obtain ⟨r, hl, ht⟩ := split_of_le h (by omega)
  have : utf8Len r = 0 := by
    have := congrArg utf8Len hl; simp at this; omega
  have hr : r = [] := by
    cases r with
    | nil => rfl
    | cons d r' => simp at this; have := utf8Size_pos d; omega
  subst hr
  exact ⟨by simpa using hl, by simpa using ht⟩

theorem adv_cut {s s1 : PS} {l x : List Char} (ha : Adv s s1) (hs : s.rest = l ++ x)
    (hp : s1.pos = s.pos + utf8Len l) : s1.rest = x ∧ ∃ w, w = l ∧ s.rest = w ++ s1.rest := by
  obtain ⟨⟨w, e, hpw⟩, _, _⟩ := ha
  rw [hs] at e
  obtain ⟨h1, h2⟩ := cut_eq e (by omega)
  exact ⟨h2, w, h1.symm, by rw [hs, h1, h2]⟩

theorem lexKeyColon_fail_complete {s : PS} {l z : List Char} {c : Option Char} (hs : s.rest = l ++ z)
    (hb : s.bad = false)
    (h : lexKeyColon strictOpts s = .error (.unexpected (s.pos + utf8Len l) c)) :
    ∃ comp, ∀ r, ∃ key s', lexKeyColon allOpts (s.re (l ++ comp ++ r)) = .ok (key, s.cm.size, s') ∧
      Post s s' r ∧ s.cm.size < s'.cm.size := by
  unfold lexKeyColon at h
  simp only [PS.beginFragment_fst, PS.beginFragment_snd] at h
  cases h1 : lexString strictOpts s.reserve with
  | error e =>
    simp only [h1, Except.error.injEq] at h
    subst h
    obtain ⟨comp, hc⟩ := lexString_fail_complete (s := s.reserve) (l := l) (z := z) (by simpa using hs)
      (by simpa using h1)
    refine ⟨comp ++ [':'], fun r => ?_⟩
    obtain ⟨str, s1, hl1, p1⟩ := hc (':' :: r)
    obtain ⟨s2, hl2, p2, c2⟩ := skipWs_complete (s := s1) (w := []) (r := ':' :: r) (by simpa using p1.rest)
      IsWsL.nil (noWsHead_cons (by decide)) (by rw [p1.bad]; simpa using hb)
    obtain ⟨s3, hl3, p3, c3⟩ := expectChar_complete (s := s2) (c := ':') (r := r) p2.rest
    refine ⟨str, s3, ?_, ⟨p3.rest, by rw [p3.bad, p2.bad, p1.bad]; rfl, ?_⟩, ?_⟩
    · unfold lexKeyColon
      simp only [PS.beginFragment_fst, PS.beginFragment_snd, PS.reserve_re, PS.re_cm]
      have : l ++ (comp ++ [':']) ++ r = l ++ comp ++ ':' :: r := by simp
      rw [this, hl1]; simp only [hl2, hl3]
    · have := p1.cm; have := p2.cm; have := p3.cm
      simp only [PS.reserve] at *
      simp at *; omega
    · have := p1.cm; have := p2.cm; have := p3.cm
      simp only [PS.reserve] at *
      simp at *; omega
  | ok v =>
    obtain ⟨key, sa⟩ := v
    simp only [h1] at h
    cases h2 : skipWs sa with
    | error e =>
      simp only [h2, Except.error.injEq] at h
      subst h
      exact absurd h2 skipWs_no_unexpected
    | ok sb =>
      simp only [h2] at h
      cases h3 : expectChar ':' sb with
      | error e =>
        simp only [h3, Except.error.injEq] at h
        subst h
        -- the key and the whitespace after it were read in full; the colon is missing
        have hq : sb.pos = s.pos + utf8Len l := by
          unfold expectChar at h3
          split at h3
          · unfold PS.eofErr at h3; rw [(by rw [(skipWs_adv h2).2.1, (lexString_adv h1).2.1]; simpa using hb : sb.bad = false)] at h3
            simp at h3; exact h3.1
          · split at h3
            · cases h3
            · simp at h3; exact h3.1
        have h1' := lexString_mono (o := allOpts) h1
        obtain ⟨t, ht, hk⟩ := Len.lexString_sound h1'
        obtain ⟨w2, hw2, hws⟩ := skipWs_sound h2
        have hcut : l = t ++ w2 := by
          have hadv := (lexString_adv h1).trans (skipWs_adv h2)
          obtain ⟨⟨w, e, hpw⟩, _, _⟩ := hadv
          simp only [beginFragment_rest, beginFragment_pos] at e hpw
          rw [hs] at e
          obtain ⟨e1, e2⟩ := cut_eq e (by omega)
          simp only [beginFragment_rest] at ht
          rw [hs, hw2] at ht
          rw [e1, ← e2] at ht
          rw [← List.append_assoc] at ht
          have := List.append_cancel_right ht
          rw [e1, this]
        refine ⟨[':'], fun r => ?_⟩
        obtain ⟨s', hl', p', c'⟩ := Len.lexKeyColon_complete (o := allOpts) (s := s.re (l ++ [':'] ++ r))
          (k := t) (key := key) (w2 := w2) (x := r) hk (by simp [hcut]) hws (by simpa using hb)
        exact ⟨key, s', by simpa using hl', ⟨p'.rest, by simpa using p'.bad, by simpa using p'.cm⟩, by simpa using c'⟩
      | ok sc => simp [h3] at h

/-- the outcome of completing a `parseFragment` that stopped after `l`: a complete value, or an
    object that has just read its first key and colon -/
def FragDone (ctx : Ctx) (s : PS) (l comp : List Char) : Prop :=
  (∀ r, FollowOK ctx r → ∃ v s', parseFragment allOpts ctx (s.re (l ++ comp ++ r)) = .ok (.value v, s') ∧
      Post s s' r) ∨
  (∀ r, ∃ key e s', parseFragment allOpts ctx (s.re (l ++ comp ++ r)) = .ok (.beginObject s.cm.size key e, s') ∧
      Post s s' r ∧ s.cm.size < s'.cm.size ∧ e < s'.cm.size)

theorem fragDone_leaf {ctx : Ctx} {s : PS} {w t comp : List Char} {v : JValue} (hb : s.bad = false)
    (hw : IsWsL w) (hv : LValue allOpts (t ++ comp) v) (hleaf : IsLeaf v) :
    FragDone ctx s (w ++ t) comp := by
  refine Or.inl (fun r hf => ?_)
  obtain ⟨s', h1, p1⟩ := Len.parseFragment_leaf_complete (o := allOpts) (ctx := ctx)
    (s := s.re (w ++ t ++ comp ++ r)) (w := w) (t := t ++ comp) (r := r) hv hleaf (by simp) hw hf (by simpa using hb)
  exact ⟨v, s', h1, ⟨p1.rest, by simpa using p1.bad, by simpa using p1.cm⟩⟩

theorem skipWs_eq {s s' : PS} (h : skipWs s = .ok s') : s'.cm = s.cm ∧ s'.bad = s.bad := by
  unfold skipWs at h
  simp only at h
  split at h
  · cases h
  · cases h; exact ⟨rfl, rfl⟩

theorem parseFragment_fail_complete {ctx : Ctx} {s : PS} {l z : List Char} {c : Option Char}
    (hs : s.rest = l ++ z) (hb : s.bad = false)
    (h : parseFragment strictOpts ctx s = .error (.unexpected (s.pos + utf8Len l) c)) :
    ∃ comp, FragDone ctx s l comp := by
  unfold parseFragment at h
  cases h2 : skipWs s with
  | error e =>
    simp only [h2, Except.error.injEq] at h
    subst h
    exact absurd h2 skipWs_no_unexpected
  | ok sb =>
    simp only [h2] at h
    obtain ⟨hcm, hbad⟩ := skipWs_eq h2
    have hbb : sb.bad = false := by rw [hbad]; exact hb
    obtain ⟨w, hw, hws⟩ := skipWs_sound h2
    obtain ⟨⟨w', e', hpw⟩, _, _⟩ := skipWs_adv h2
    have hww : w' = w := by rw [hw] at e'; exact (List.append_cancel_right e').symm
    subst hww
    have hq : sb.pos ≤ s.pos + utf8Len l := by
      split at h
      · unfold PS.eofErr at h; rw [hbb] at h; simp at h; omega
      · repeat' (split at h)
        all_goals (first | (cases h; done) | skip)
        all_goals (try simp only [Except.error.injEq] at h)
        · subst h; exact (lexNull_err ‹_›).pos_le
        · subst h; exact (lexBool_err ‹_›).pos_le
        · subst h; exact (lexNumber_err ‹_›).pos_le
        · subst h; exact (lexString_err ‹_›).pos_le
        · exact (startArray_err h).pos_le
        · exact (startObject_err h).pos_le
        · simp only [PErr.unexpected.injEq] at h; omega
    obtain ⟨l2, hl, hr2⟩ := split_of_le (by rw [← hs, hw]) (by omega : utf8Len w' ≤ utf8Len l)
    have hqb : s.pos + utf8Len l = sb.pos + utf8Len l2 := by rw [hl, hpw]; simp; omega
    cases l2 with
    | nil =>
      -- nothing of a token was read: any value will do
      refine ⟨['0'], ?_⟩
      have := fragDone_leaf (ctx := ctx) (s := s) (w := w') (t := []) (comp := ['0']) hb hws
        (.number _ gnumber_zero) trivial
      simpa [hl] using this
    | cons d l3 =>
      simp only [hr2, List.cons_append] at h
      by_cases h_n : d = 'n'
      · rw [if_pos h_n] at h
        cases h3 : lexNull sb with
        | error e =>
          simp only [h3, Except.error.injEq] at h; subst h
          obtain ⟨comp, v, hv, hleaf⟩ := lexNull_fail_prefix (l := d :: l3) (by simpa using hr2) (by rw [← hqb]; exact h3)
          exact ⟨comp, by rw [hl]; exact fragDone_leaf hb hws hv hleaf⟩
        | ok s3 => simp [h3] at h
      · rw [if_neg h_n] at h
        by_cases h_b : (d = 't' || d = 'f') = true
        · rw [if_pos h_b] at h
          cases h3 : lexBool sb with
          | error e =>
            simp only [h3, Except.error.injEq] at h; subst h
            obtain ⟨comp, v, hv, hleaf⟩ := lexBool_fail_prefix (l := d :: l3) (by simpa using hr2) (by rw [← hqb]; exact h3)
            exact ⟨comp, by rw [hl]; exact fragDone_leaf hb hws hv hleaf⟩
          | ok v => obtain ⟨b, s3⟩ := v; simp [h3] at h
        · rw [if_neg h_b] at h
          by_cases h_d : (isDigit d || d = '-') = true
          · rw [if_pos h_d] at h
            cases h3 : lexNumber ctx sb with
            | error e =>
              simp only [h3, Except.error.injEq] at h; subst h
              obtain ⟨comp, hn⟩ := lexNumber_fail_prefix (l := d :: l3) (by simpa using hr2) (by rw [← hqb]; exact h3)
              exact ⟨comp, by rw [hl]; exact fragDone_leaf hb hws (.number _ hn) trivial⟩
            | ok v => obtain ⟨n, s3⟩ := v; simp [h3] at h
          · rw [if_neg h_d] at h
            have hlt : sb.pos < s.pos + utf8Len l := by
              rw [hqb]; simp only [utf8Len_cons]; have := utf8Size_pos d; omega
            obtain ⟨rb, hrb, hyb⟩ := skipWs_local hs h2 hlt
            have hrbeq : rb = d :: l3 := by
              rw [hr2] at hrb
              simp only [List.cons_append] at hrb
              exact (List.append_cancel_right (by simpa using hrb)).symm
            subst hrbeq
            by_cases h_q : d = '"'
            · rw [if_pos h_q] at h
              cases h3 : lexString strictOpts sb with
              | error e =>
                simp only [h3, Except.error.injEq] at h; subst h
                obtain ⟨comp, hc⟩ := lexString_fail_complete (s := sb) (l := d :: l3) (by simpa using hr2)
                  (by rw [← hqb]; exact h3)
                refine ⟨comp, Or.inl (fun r _ => ?_)⟩
                obtain ⟨str, s', hl', p'⟩ := hc r
                refine ⟨.string str, s', ?_, ⟨p'.rest, by rw [p'.bad, hbad], by rw [← hcm]; exact p'.cm⟩⟩
                unfold parseFragment
                have hy := hyb (comp ++ r)
                simp only [← List.append_assoc] at hy
                rw [hy]
                simp only [PS.re_rest, List.cons_append]
                rw [if_neg h_n, if_neg h_b, if_neg h_d, if_pos h_q]
                simp only [List.cons_append, List.append_assoc] at hl'
                simp only [List.append_assoc]
                rw [hl']
              | ok v => obtain ⟨str, s3⟩ := v; simp [h3] at h
            · rw [if_neg h_q] at h
              by_cases h_a : d = '['
              · -- `[`: reading the bracket and the whitespace after it cannot fail this way
                rw [if_pos h_a] at h
                exfalso
                unfold startArray at h
                simp only [PS.beginFragment_fst, PS.beginFragment_snd] at h
                have he : ∃ s1, expectChar '[' sb.reserve = .ok s1 := by
                  unfold expectChar; simp [hr2, h_a]
                obtain ⟨s1, he⟩ := he
                simp only [he] at h
                cases hw2 : skipWs s1 with
                | error e => simp only [hw2, Except.error.injEq] at h; subst h; exact absurd hw2 skipWs_no_unexpected
                | ok s2 =>
                  simp only [hw2] at h
                  split at h
                  · split at h
                    · split at h
                      · rename_i e h4
                        simp only [Except.error.injEq] at h
                        have := endFragment_err h4; subst h; cases this
                      · cases h
                    · cases h
                  · cases h
              · rw [if_neg h_a] at h
                by_cases h_o : d = '{'
                · rw [if_pos h_o] at h
                  unfold startObject at h
                  simp only [PS.beginFragment_fst, PS.beginFragment_snd] at h
                  cases he : expectChar '{' sb.reserve with
                  | error e => unfold expectChar at he; simp [hr2, h_o] at he
                  | ok s1 =>
                    simp only [he] at h
                    cases hw2 : skipWs s1 with
                    | error e => simp only [hw2, Except.error.injEq] at h; subst h; exact absurd hw2 skipWs_no_unexpected
                    | ok s2 =>
                      simp only [hw2] at h
                      obtain ⟨hcm2, hbad2⟩ := skipWs_eq hw2
                      have hcm1 := (expectChar_cm he).1
                      have hadv12 : Adv sb.reserve s2 := (expectChar_adv he).trans (skipWs_adv hw2)
                      have hq2 : s2.pos ≤ sb.pos + utf8Len (d :: l3) := by
                        rw [← hqb]
                        split at h
                        · split at h
                          · split at h
                            · rename_i e h4
                              simp only [Except.error.injEq] at h
                              have := endFragment_err h4; subst h; cases this
                            · cases h
                          · exact (startObjectKey_err h).pos_le
                        · exact (startObjectKey_err h).pos_le
                      rcases Nat.lt_or_ge s2.pos (sb.pos + utf8Len (d :: l3)) with hlt2 | hge2
                      · -- strictly inside: the key (or what follows it) is incomplete
                        obtain ⟨w4, l4, hl4ne, hl4, hr4, hp4⟩ := adv_split (s := sb.reserve) (l := d :: l3) (x := z)
                          hadv12 (by simpa using hr2) (by simpa using hlt2)
                        obtain ⟨d2, l5, rfl⟩ : ∃ d2 l5, l4 = d2 :: l5 := by
                          cases l4 with
                          | nil => exact absurd rfl hl4ne
                          | cons a b => exact ⟨a, b, rfl⟩
                        simp only [hr4, List.cons_append] at h
                        by_cases h_c : d2 = '}'
                        · rw [if_pos h_c] at h
                          split at h
                          · rename_i e h4
                            simp only [Except.error.injEq] at h
                            have := endFragment_err h4; subst h; cases this
                          · cases h
                        · rw [if_neg h_c] at h
                          unfold startObjectKey at h
                          cases hk : lexKeyColon strictOpts s2 with
                          | error e =>
                            simp only [hk, Except.error.injEq] at h; subst h
                            have hpos4 : s.pos + utf8Len l = s2.pos + utf8Len (d2 :: l5) := by
                              rw [hqb, hl4, hp4]; simp; omega
                            obtain ⟨comp, hc⟩ := lexKeyColon_fail_complete (s := s2) (l := d2 :: l5) (z := z)
                              (by simpa using hr4) (by rw [hbad2, (expectChar_adv he).2.1]; simpa using hbb)
                              (by rw [← hpos4]; exact hk)
                            refine ⟨comp, Or.inr (fun r => ?_)⟩
                            obtain ⟨key, s', hl', p', hc'⟩ := hc r
                            have hsz : s2.cm.size = s.cm.size + 1 := by
                              rw [hcm2, hcm1, ← hcm]; simp [PS.reserve]
                            refine ⟨key, s2.cm.size, s', ?_, ⟨p'.rest, by rw [p'.bad, hbad2, (expectChar_adv he).2.1]; simpa using hbad, by have := p'.cm; omega⟩, by omega, hc'⟩
                            -- replay the steps on the completed input
                            obtain ⟨r1, hr1, hy1⟩ := expectChar_local (s := sb.reserve) (l := d :: l3) (x := z)
                              (by rw [beginFragment_rest]; exact hr2) he (by have := (skipWs_adv hw2).1.le; simp only [beginFragment_pos]; omega)
                            have b1 := local_bound (expectChar_adv he) (l := d :: l3) (x := z) (by rw [beginFragment_rest]; exact hr2) hr1
                            simp only [beginFragment_pos] at b1
                            obtain ⟨r2', hr2', hy2⟩ := skipWs_local hr1 hw2 (by omega)
                            have hr2eq : r2' = d2 :: l5 := by
                              rw [hr4] at hr2'
                              exact (List.append_cancel_right (by simpa using hr2')).symm
                            subst hr2eq
                            unfold parseFragment
                            have hy := hyb (comp ++ r)
                            simp only [← List.append_assoc] at hy
                            rw [hy]
                            simp only [PS.re_rest, List.cons_append]
                            rw [if_neg h_n, if_neg h_b, if_neg h_d, if_neg h_q, if_neg h_a, if_pos h_o]
                            unfold startObject
                            simp only [PS.beginFragment_fst, PS.beginFragment_snd, PS.reserve_re, PS.re_cm]
                            have hy1' := hy1 (comp ++ r)
                            simp only [List.cons_append, List.append_assoc] at hy1' ⊢
                            rw [hy1']
                            simp only
                            have hy2' := hy2 (comp ++ r)
                            rw [hy2']
                            simp only [PS.re_rest, List.cons_append]
                            rw [if_neg h_c]
                            unfold startObjectKey
                            simp only [List.cons_append, List.append_assoc] at hl'
                            rw [hl']
                            simp only [hcm]
                          | ok v => obtain ⟨key, e, s3⟩ := v; simp [hk] at h
                      · -- the brace and whitespace were read in full: close the object at once
                        have hp2 : s2.pos = sb.reserve.pos + utf8Len (d :: l3) := by
                          simp only [beginFragment_pos]; omega
                        obtain ⟨hrest2, wfull, hwfull, _⟩ := adv_cut hadv12 (by simpa using hr2) hp2
                        -- d :: l3 = '{' :: w0 with w0 whitespace
                        obtain ⟨⟨w1, e1, _⟩, _, _⟩ := expectChar_adv he
                        have hs1 := expectChar_sound he
                        obtain ⟨w0, hw0, hws0⟩ := skipWs_sound hw2
                        have hl3 : l3 = w0 := by
                          simp only [beginFragment_rest, hr2, List.cons_append] at hs1
                          have h1r : s1.rest = l3 ++ z := by
                            have := List.cons.inj hs1; exact this.2.symm
                          rw [h1r, hrest2] at hw0
                          exact List.append_cancel_right hw0
                        refine ⟨['}'], ?_⟩
                        have hv : LValue allOpts ((d :: l3) ++ ['}']) (.object []) := by
                          rw [h_o, hl3]
                          have := LValue.objEmpty (o := allOpts) w0 hws0
                          simpa using this
                        rw [hl]
                        exact fragDone_leaf hb hws hv trivial
                · rw [if_neg h_o] at h
                  simp only [Except.error.injEq, PErr.unexpected.injEq] at h
                  omega

/-! ## continuation steps -/

def ContArrDone (i : Nat) (s : PS) (l comp : List Char) : Prop :=
  (∀ r, ∃ s', contArray i (s.re (l ++ comp ++ r)) = .ok (.end_, s') ∧ Post s s' r) ∨
  (∀ r, ∃ s', contArray i (s.re (l ++ comp ++ r)) = .ok (.item, s') ∧ Post s s' r)

/-- `contArray` touching the end of `l`: it failed there, or it read exactly `l` -/
theorem contArray_touch {i : Nat} {s : PS} {l z : List Char} (hs : s.rest = l ++ z) (hb : s.bad = false)
    (hi : i < s.cm.size)
    (h : (∃ c, contArray i s = .error (.unexpected (s.pos + utf8Len l) c)) ∨
         (∃ k s1, contArray i s = .ok (k, s1) ∧ s1.pos = s.pos + utf8Len l)) :
    ∃ comp, ContArrDone i s l comp := by
  rcases h with ⟨c, h⟩ | ⟨k, s1, h, hp⟩
  · -- failed: only whitespace was read
    unfold contArray at h
    cases h2 : skipWs s with
    | error e => simp only [h2, Except.error.injEq] at h; subst h; exact absurd h2 skipWs_no_unexpected
    | ok sb =>
      simp only [h2] at h
      obtain ⟨w, hw, hws⟩ := skipWs_sound h2
      obtain ⟨⟨w', e', hpw⟩, _, _⟩ := skipWs_adv h2
      have hww : w' = w := by rw [hw] at e'; exact (List.append_cancel_right e').symm
      subst hww
      have hbb : sb.bad = false := by rw [(skipWs_eq h2).2]; exact hb
      have hq : sb.pos = s.pos + utf8Len l := by
        split at h
        · unfold PS.eofErr at h; rw [hbb] at h; simp at h; omega
        · split at h
          · cases h
          · split at h
            · split at h
              · rename_i e h4
                simp only [Except.error.injEq] at h
                have := endFragment_err h4; subst h; cases this
              · cases h
            · simp only [Except.error.injEq, PErr.unexpected.injEq] at h; omega
      obtain ⟨hlw, _⟩ := cut_eq (by rw [← hs, hw]) (by omega : utf8Len w' = utf8Len l)
      refine ⟨[']'], Or.inl (fun r => ?_)⟩
      obtain ⟨s', h1, p1⟩ := contArray_end_complete (i := i) (s := s.re (l ++ [']'] ++ r)) (w := w') (x := r)
        (by simp [hlw]) hws (by simpa using hb) (by simpa using hi)
      exact ⟨s', h1, ⟨p1.rest, by simpa using p1.bad, by simpa using p1.cm⟩⟩
  · have hspec := contArray_sound h
    cases k with
    | item =>
      obtain ⟨w, hws, hr⟩ := hspec
      obtain ⟨hl1, _⟩ := adv_cut (contArray_adv h) hs hp
      have hlw : l = w ++ [','] := by
        rw [hs, hl1] at hr
        have : l ++ z = (w ++ [',']) ++ z := by simpa using hr
        exact List.append_cancel_right this
      refine ⟨[], Or.inr (fun r => ?_)⟩
      obtain ⟨s', h1, p1⟩ := contArray_item_complete (i := i) (s := s.re (l ++ [] ++ r)) (w := w) (x := r)
        (by simp [hlw]) hws (by simpa using hb)
      exact ⟨s', h1, ⟨p1.rest, by simpa using p1.bad, by simpa using p1.cm⟩⟩
    | end_ =>
      obtain ⟨w, hws, hr⟩ := hspec
      obtain ⟨hl1, _⟩ := adv_cut (contArray_adv h) hs hp
      have hlw : l = w ++ [']'] := by
        rw [hs, hl1] at hr
        have : l ++ z = (w ++ [']']) ++ z := by simpa using hr
        exact List.append_cancel_right this
      refine ⟨[], Or.inl (fun r => ?_)⟩
      obtain ⟨s', h1, p1⟩ := contArray_end_complete (i := i) (s := s.re (l ++ [] ++ r)) (w := w) (x := r)
        (by simp [hlw]) hws (by simpa using hb) (by simpa using hi)
      exact ⟨s', h1, ⟨p1.rest, by simpa using p1.bad, by simpa using p1.cm⟩⟩

def ContObjDone (i : Nat) (s : PS) (l comp : List Char) : Prop :=
  (∀ r, ∃ s', contObject allOpts i (s.re (l ++ comp ++ r)) = .ok (.end_, s') ∧ Post s s' r) ∨
  (∀ r, ∃ key e s', contObject allOpts i (s.re (l ++ comp ++ r)) = .ok (.entry key e, s') ∧ Post s s' r ∧
      e < s'.cm.size)

theorem lstring_empty : LString allOpts ['"', '"'] [] := by
  have := LString.mk (o := allOpts) [] [] .nil
  simpa using this

theorem contObject_touch {i : Nat} {s : PS} {l z : List Char} (hs : s.rest = l ++ z) (hb : s.bad = false)
    (hi : i < s.cm.size)
    (h : (∃ c, contObject strictOpts i s = .error (.unexpected (s.pos + utf8Len l) c)) ∨
         (∃ k s1, contObject strictOpts i s = .ok (k, s1) ∧ s1.pos = s.pos + utf8Len l)) :
    ∃ comp, ContObjDone i s l comp := by
  rcases h with ⟨c, h⟩ | ⟨k, s1, h, hp⟩
  · unfold contObject at h
    cases h2 : skipWs s with
    | error e => simp only [h2, Except.error.injEq] at h; subst h; exact absurd h2 skipWs_no_unexpected
    | ok sb =>
      simp only [h2] at h
      obtain ⟨w, hw, hws⟩ := skipWs_sound h2
      obtain ⟨⟨w', e', hpw⟩, _, _⟩ := skipWs_adv h2
      have hww : w' = w := by rw [hw] at e'; exact (List.append_cancel_right e').symm
      subst hww
      obtain ⟨hcm, hbad⟩ := skipWs_eq h2
      have hbb : sb.bad = false := by rw [hbad]; exact hb
      -- close the object right after the whitespace
      have close_here : sb.pos = s.pos + utf8Len l → ∃ comp, ContObjDone i s l comp := by
        intro hq
        obtain ⟨hlw, _⟩ := cut_eq (by rw [← hs, hw]) (by omega : utf8Len w' = utf8Len l)
        refine ⟨['}'], Or.inl (fun r => ?_)⟩
        obtain ⟨s', h1, p1⟩ := Len.contObject_end_complete (o := allOpts) (i := i) (s := s.re (l ++ ['}'] ++ r))
          (w := w') (x := r) (by simp [hlw]) hws (by simpa using hb) (by simpa using hi)
        exact ⟨s', h1, ⟨p1.rest, by simpa using p1.bad, by simpa using p1.cm⟩⟩
      cases hr : sb.rest with
      | nil =>
        simp only [hr] at h
        unfold PS.eofErr at h; rw [hbb] at h; simp at h
        exact close_here (by omega)
      | cons d r0 =>
        simp only [hr] at h
        by_cases hc : d = ','
        · subst hc
          simp only [↓reduceIte] at h
          cases h3 : skipWs (sb.adv ',' r0) with
          | error e => simp only [h3, Except.error.injEq] at h; subst h; exact absurd h3 skipWs_no_unexpected
          | ok sc =>
            simp only [h3] at h
            cases h4 : lexKeyColon strictOpts sc with
            | ok v => obtain ⟨key, e, sd⟩ := v; simp [h4] at h
            | error e =>
              simp only [h4, Except.error.injEq] at h; subst h
              have hq4 := (lexKeyColon_err h4).pos_le
              obtain ⟨w1, hw1, hws1⟩ := skipWs_sound h3
              obtain ⟨hcm3, hbad3⟩ := skipWs_eq h3
              have hadv : Adv s sc := (skipWs_adv h2).trans ((adv_adv hr).trans (skipWs_adv h3))
              rcases Nat.lt_or_ge sc.pos (s.pos + utf8Len l) with hlt | hge
              · -- the key (or the colon) is incomplete: replay exactly, then complete it
                obtain ⟨wa, l4, hl4ne, hl4, hr4, hp4⟩ := adv_split hadv hs hlt
                obtain ⟨comp, hcmp⟩ := lexKeyColon_fail_complete (s := sc) (l := l4) (z := z) hr4
                  (by rw [hbad3]; simpa [PS.adv] using hbb) (by rw [← (by rw [hl4, hp4]; simp; omega : s.pos + utf8Len l = sc.pos + utf8Len l4)]; exact h4)
                refine ⟨comp, Or.inr (fun r => ?_)⟩
                obtain ⟨key, s', hl', p', hc'⟩ := hcmp r
                have g3 := (skipWs_adv h3).1.le
                have hsbpos : sb.pos < s.pos + utf8Len l := by
                  simp only [PS.adv] at g3; have := utf8Size_pos ','; omega
                obtain ⟨rb, hrb, hyb⟩ := skipWs_local hs h2 hsbpos
                have bb := local_bound (skipWs_adv h2) hs hrb
                obtain ⟨d0, rb', rfl⟩ := head_of_lt hrb bb hsbpos
                have hd0 : d0 = ',' ∧ r0 = rb' ++ z := by
                  rw [hr] at hrb; simp only [List.cons_append, List.cons.injEq] at hrb; exact ⟨hrb.1.symm, hrb.2⟩
                obtain ⟨rfl, hr0⟩ := hd0
                have hadvr : (sb.adv ',' r0).rest = rb' ++ z := by simp [PS.adv, hr0]
                have bc0 : (sb.adv ',' r0).pos + utf8Len rb' = s.pos + utf8Len l := by
                  simp only [PS.adv, utf8Len_cons] at bb ⊢; omega
                obtain ⟨rc, hrc, hyc⟩ := skipWs_local hadvr h3 (by omega)
                have hrceq : rc = l4 := by
                  rw [hr4] at hrc; exact (List.append_cancel_right hrc).symm
                subst hrceq
                refine ⟨key, sc.cm.size, s', ?_, ⟨p'.rest, by rw [p'.bad, hbad3]; simpa [PS.adv] using hbad, ?_⟩, hc'⟩
                · unfold contObject
                  have hy := hyb (comp ++ r)
                  simp only [← List.append_assoc] at hy
                  rw [hy]
                  simp only [PS.re_rest, List.cons_append, ↓reduceIte]
                  have : ((sb.re (',' :: (rb' ++ (comp ++ r)))).adv ',' (rb' ++ (comp ++ r))) = (sb.adv ',' r0).re (rb' ++ (comp ++ r)) := rfl
                  simp only [List.append_assoc] at this ⊢
                  rw [this, hyc (comp ++ r)]
                  simp only
                  simp only [List.append_assoc] at hl'
                  rw [hl']
                · have := p'.cm
                  rw [hcm3] at this
                  simp only [PS.adv] at this
                  rw [hcm] at this
                  exact this
              · -- comma and whitespace were read in full: supply an entry
                have hp : sc.pos = s.pos + utf8Len l := by omega
                obtain ⟨hrest, _⟩ := adv_cut hadv hs hp
                have hlw : l = w' ++ ',' :: w1 := by
                  have e1 : s.rest = w' ++ ',' :: (w1 ++ sc.rest) := by
                    rw [hw, hr]; simp only [PS.adv] at hw1; rw [hw1]
                  rw [hs, hrest] at e1
                  have : l ++ z = (w' ++ ',' :: w1) ++ z := by simpa using e1
                  exact List.append_cancel_right this
                refine ⟨['"', '"', ':'], Or.inr (fun r => ?_)⟩
                obtain ⟨s', e, h1, p1, he⟩ := Len.contObject_entry_complete (o := allOpts) (i := i)
                  (s := s.re (l ++ ['"', '"', ':'] ++ r)) (w := w') (w1 := w1) (k := ['"', '"']) (key := [])
                  (w2 := []) (x := r) (by simp [hlw]) hws hws1 lstring_empty IsWsL.nil (by simpa using hb)
                exact ⟨[], e, s', h1, ⟨p1.rest, by simpa using p1.bad, by simpa using p1.cm⟩, he⟩
        · simp only [hc, ↓reduceIte] at h
          by_cases hd : d = '}'
          · simp only [hd, ↓reduceIte] at h
            split at h
            · rename_i e h4
              simp only [Except.error.injEq] at h
              have := endFragment_err h4; subst h; cases this
            · cases h
          · simp only [hd, ↓reduceIte, Except.error.injEq, PErr.unexpected.injEq] at h
            exact close_here (by omega)
  · have h' := contObject_mono (o := allOpts) h
    have hspec := Len.contObject_sound h'
    cases k with
    | entry key e =>
      obtain ⟨w, w1, kk, w2, hr, hws, hws1, hk, hws2⟩ := hspec
      obtain ⟨hl1, _⟩ := adv_cut (contObject_adv h) hs hp
      have hlw : l = w ++ ',' :: (w1 ++ kk ++ w2 ++ [':']) := by
        rw [hs, hl1] at hr
        have : l ++ z = (w ++ ',' :: (w1 ++ kk ++ w2 ++ [':'])) ++ z := by simpa using hr
        exact List.append_cancel_right this
      refine ⟨[], Or.inr (fun r => ?_)⟩
      obtain ⟨s', e', h1, p1, he⟩ := Len.contObject_entry_complete (o := allOpts) (i := i)
        (s := s.re (l ++ [] ++ r)) (w := w) (w1 := w1) (k := kk) (key := key) (w2 := w2) (x := r)
        (by simp [hlw]) hws hws1 hk hws2 (by simpa using hb)
      exact ⟨key, e', s', h1, ⟨p1.rest, by simpa using p1.bad, by simpa using p1.cm⟩, he⟩
    | end_ =>
      obtain ⟨w, hr, hws⟩ := hspec
      obtain ⟨hl1, _⟩ := adv_cut (contObject_adv h) hs hp
      have hlw : l = w ++ ['}'] := by
        rw [hs, hl1] at hr
        have : l ++ z = (w ++ ['}']) ++ z := by simpa using hr
        exact List.append_cancel_right this
      refine ⟨[], Or.inl (fun r => ?_)⟩
      obtain ⟨s', h1, p1⟩ := Len.contObject_end_complete (o := allOpts) (i := i) (s := s.re (l ++ [] ++ r))
        (w := w) (x := r) (by simp [hlw]) hws (by simpa using hb) (by simpa using hi)
      exact ⟨s', h1, ⟨p1.rest, by simpa using p1.bad, by simpa using p1.cm⟩⟩

theorem startArray_value {s : PS} {v : JValue} {s' : PS} (h : startArray s = .ok (.value v, s')) :
    v = .array [] := by
  unfold startArray at h
  simp only [PS.beginFragment_fst, PS.beginFragment_snd] at h
  cases h1 : expectChar '[' s.reserve with
  | error e => simp [h1] at h
  | ok s1 =>
    simp only [h1] at h
    cases h2 : skipWs s1 with
    | error e => simp [h2] at h
    | ok s2 =>
      simp only [h2] at h
      split at h
      · split at h
        · split at h
          · cases h
          · simp only [Except.ok.injEq, Prod.mk.injEq, Fragment.value.injEq] at h; exact h.1.symm
        · cases h
      · cases h

theorem startObject_value {o : ParseOptions} {s : PS} {v : JValue} {s' : PS}
    (h : startObject o s = .ok (.value v, s')) : v = .object [] := by
  unfold startObject at h
  simp only [PS.beginFragment_fst, PS.beginFragment_snd] at h
  cases h1 : expectChar '{' s.reserve with
  | error e => simp [h1] at h
  | ok s1 =>
    simp only [h1] at h
    cases h2 : skipWs s1 with
    | error e => simp [h2] at h
    | ok s2 =>
      simp only [h2] at h
      split at h
      · split at h
        · split at h
          · cases h
          · simp only [Except.ok.injEq, Prod.mk.injEq, Fragment.value.injEq] at h; exact h.1.symm
        · unfold startObjectKey at h; split at h <;> cases h
      · unfold startObjectKey at h; split at h <;> cases h

/-- `parseFragment` hands back only leaf values (non-empty containers are announced, not returned) -/
theorem parseFragment_value_leaf {o : ParseOptions} {ctx : Ctx} {s : PS} {v : JValue} {s' : PS}
    (h : parseFragment o ctx s = .ok (.value v, s')) : IsLeaf v := by
  unfold parseFragment at h
  cases h0 : skipWs s with
  | error e => simp [h0] at h
  | ok s0 =>
    simp only [h0] at h
    cases hr : s0.rest with
    | nil => simp [hr] at h
    | cons d r =>
      simp only [hr] at h
      by_cases h_n : d = 'n'
      · rw [if_pos h_n] at h
        split at h
        · cases h
        · cases h; trivial
      · rw [if_neg h_n] at h
        by_cases h_b : (d = 't' || d = 'f') = true
        · rw [if_pos h_b] at h
          split at h
          · cases h
          · cases h; trivial
        · rw [if_neg h_b] at h
          by_cases h_d : (isDigit d || d = '-') = true
          · rw [if_pos h_d] at h
            split at h
            · cases h
            · cases h; trivial
          · rw [if_neg h_d] at h
            by_cases h_q : d = '"'
            · rw [if_pos h_q] at h
              split at h
              · cases h
              · cases h; trivial
            · rw [if_neg h_q] at h
              by_cases h_a : d = '['
              · rw [if_pos h_a] at h
                rw [startArray_value h]; trivial
              · rw [if_neg h_a] at h
                by_cases h_o : d = '{'
                · rw [if_pos h_o] at h
                  rw [startObject_value h]; trivial
                · rw [if_neg h_o] at h; cases h

/-- an object whose first key and colon have been read in full is announced on any continuation -/
theorem parseFragment_beginObject_complete {ctx : Ctx} {s : PS} {w w0 k key w2 r : List Char}
    (hs : s.rest = w ++ '{' :: (w0 ++ k ++ w2 ++ ':' :: r)) (hw : IsWsL w) (hw0 : IsWsL w0)
    (hk : LString allOpts k key) (hw2 : IsWsL w2) (hb : s.bad = false) :
    ∃ e s', parseFragment allOpts ctx s = .ok (.beginObject s.cm.size key e, s') ∧ Post s s' r ∧
      s.cm.size < s'.cm.size ∧ e < s'.cm.size := by
  obtain ⟨s0, h0, p0, c0⟩ := skipWs_complete (s := s) (w := w) (r := '{' :: (w0 ++ k ++ w2 ++ ':' :: r)) hs hw
    (noWsHead_cons (by decide)) hb
  have hb0 : s0.bad = false := by rw [p0.bad]; exact hb
  obtain ⟨kx, hkx⟩ := Len.gstring_head hk
  obtain ⟨s1, h1, p1, c1⟩ := expectChar_complete (s := s0.reserve) (c := '{')
    (r := w0 ++ (k ++ w2 ++ ':' :: r)) (by simpa using p0.rest)
  obtain ⟨s2, h2, p2, c2⟩ := skipWs_complete (s := s1) (w := w0) (r := k ++ w2 ++ ':' :: r) (by simpa using p1.rest) hw0
    (by rw [hkx]; exact noWsHead_cons (by decide)) (by rw [p1.bad]; exact hb0)
  obtain ⟨s3, h3, p3, c3⟩ := Len.lexKeyColon_complete (o := allOpts) (s := s2) hk p2.rest hw2
    (by rw [p2.bad, p1.bad]; exact hb0)
  have hsz2 : s2.cm.size = s.cm.size + 1 := by rw [c2, c1, ← c0]; simp [PS.reserve]
  refine ⟨s2.cm.size, s3, ?_, ⟨p3.rest, by rw [p3.bad, p2.bad, p1.bad]; simpa using p0.bad, by have := p3.cm; omega⟩,
    by omega, c3⟩
  have hd : s2.rest = '"' :: (kx ++ w2 ++ ':' :: r) := by rw [p2.rest, hkx]; simp
  simp only [parseFragment, h0, p0.rest]
  have e1 : ¬ (('{' : Char) = 'n') := by decide
  have e2 : ¬ ((('{' : Char) = 't' || ('{' : Char) = 'f') = true) := by decide
  have e3 : ¬ ((isDigit '{' || ('{' : Char) = '-') = true) := by decide
  have e4 : ¬ (('{' : Char) = '"') := by decide
  have e5 : ¬ (('{' : Char) = '[') := by decide
  simp only [e1, e2, e3, e4, e5, ↓reduceIte]
  have e6 : ¬ (('"' : Char) = '}') := by decide
  simp only [startObject, PS.beginFragment_fst, PS.beginFragment_snd, h1, h2, hd, e6, ↓reduceIte,
    startObjectKey, h3, c0, c2, c1]
  simp [PS.reserve]

theorem parseFragment_touch {ctx : Ctx} {s : PS} {l z : List Char} (hs : s.rest = l ++ z) (hb : s.bad = false)
    (h : (∃ c, parseFragment strictOpts ctx s = .error (.unexpected (s.pos + utf8Len l) c)) ∨
         (∃ f s1, parseFragment strictOpts ctx s = .ok (f, s1) ∧ s1.pos = s.pos + utf8Len l)) :
    ∃ comp, FragDone ctx s l comp := by
  rcases h with ⟨c, h⟩ | ⟨f, s1, h, hp⟩
  · exact parseFragment_fail_complete hs hb h
  · have h' := parseFragment_mono (o := allOpts) h
    have hspec := Len.parseFragment_sound h'
    obtain ⟨hl1, _⟩ := adv_cut (parseFragment_adv h) hs hp
    cases f with
    | value v =>
      obtain ⟨w, t, hr, hws, hv⟩ := hspec
      have hlw : l = w ++ t := by
        rw [hs, hl1] at hr
        exact List.append_cancel_right hr
      refine ⟨[], ?_⟩
      rw [hlw]
      exact fragDone_leaf hb hws (by simpa using hv) (parseFragment_value_leaf h)
    | beginArray i =>
      obtain ⟨w, w0, hr, hws, hws0⟩ := hspec
      have hlw : l = w ++ '[' :: w0 := by
        rw [hs, hl1] at hr
        have : l ++ z = (w ++ '[' :: w0) ++ z := by simpa using hr
        exact List.append_cancel_right this
      refine ⟨[']'], ?_⟩
      rw [hlw]
      exact fragDone_leaf (v := .array []) hb hws (t := '[' :: w0) (by simpa using LValue.arrEmpty (o := allOpts) w0 hws0) trivial
    | beginObject i key e =>
      obtain ⟨w, w0, k, w2, hr, hws, hws0, hk, hws2⟩ := hspec
      have hlw : l = w ++ '{' :: (w0 ++ k ++ w2 ++ [':']) := by
        rw [hs, hl1] at hr
        have : l ++ z = (w ++ '{' :: (w0 ++ k ++ w2 ++ [':'])) ++ z := by simpa using hr
        exact List.append_cancel_right this
      refine ⟨[], Or.inr (fun r => ?_)⟩
      obtain ⟨e', s', h1, p1, c1, c2⟩ := parseFragment_beginObject_complete (ctx := ctx) (s := s.re (l ++ [] ++ r))
        (w := w) (w0 := w0) (k := k) (key := key) (w2 := w2) (r := r) (by simp [hlw]) hws hws0 hk hws2 (by simpa using hb)
      exact ⟨key, e', s', by simpa using h1, ⟨p1.rest, by simpa using p1.bad, by simpa using p1.cm⟩, by simpa using c1, c2⟩

end JsonVerif
