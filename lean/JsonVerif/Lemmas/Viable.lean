import JsonVerif.Lemmas.LocalRun
import JsonVerif.Lemmas.ErrMono
import JsonVerif.Lemmas.LHub
/-!
# No text that continues past the reported character is JSON (C07, upper bound of the viable prefix)

The syntactic language of C07 ("any \uXXXX escape is syntactically allowed") is `LDoc ⟨true, true⟩`.
-/
namespace JsonVerif

/-- the option record under which every `\uXXXX` escape is accepted -/
def allOpts : ParseOptions := ⟨true, true⟩

theorem run_of_parseChars_err {o : ParseOptions} {cs : List Char} {bad : Bool} {e : PErr}
    (h : parseChars o cs bad = .error e) :
    run o [] none { rest := cs, bad := bad, pos := 0, cm := #[] } = .error e := by
  unfold parseChars at h
  split at h
  · rename_i e' he; cases h; exact he
  · cases h

/-- **Locality of the reported error**: the strict parser's unexpected-character error depends only
    on the input up to and including the reported character — and is reported under every record. -/
theorem parse_error_local (o : ParseOptions) (pre : List Char) (c : Char) (rest rest' : List Char)
    (h : parseChars strictOpts (pre ++ c :: rest) false = .error (.unexpected (utf8Len pre) (some c))) :
    parseChars o (pre ++ c :: rest') false = .error (.unexpected (utf8Len pre) (some c)) := by
  have h1 := run_emono (o := o) (run_of_parseChars_err h)
  have h2 := run_local_err (o := o) (x := rest) rest' [] none
    { rest := pre ++ c :: rest, bad := false, pos := 0, cm := #[] } (pre ++ [c]) (by simp) h1
    (by simp; exact utf8Size_pos c)
  unfold parseChars
  have : ({ rest := pre ++ c :: rest, bad := false, pos := 0, cm := #[] } : PS).re (pre ++ [c] ++ rest') =
      { rest := pre ++ c :: rest', bad := false, pos := 0, cm := #[] } := by
    simp [PS.re]
  rw [this] at h2
  rw [h2]

/-- hence no continuation of the input up to and including the reported character is a JSON text,
    even when every `\uXXXX` escape is allowed -/
theorem not_viable_beyond (pre : List Char) (c : Char) (rest : List Char)
    (h : parseChars strictOpts (pre ++ c :: rest) false = .error (.unexpected (utf8Len pre) (some c))) :
    ∀ rest' v, ¬ LDoc allOpts (pre ++ c :: rest') v := by
  intro rest' v hd
  obtain ⟨cm, hc⟩ := parse_complete_o allOpts hd
  rw [parse_error_local allOpts pre c rest rest' h] at hc
  cases hc

end JsonVerif
