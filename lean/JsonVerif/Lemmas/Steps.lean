import JsonVerif.Lemmas.Adv
/-! The machine needs at most `2·|input| + 2` loop iterations (C03: total, linear, single pass). -/
namespace JsonVerif

theorem runF_eq_run {o : ParseOptions} {stack : List StackItem} {value : Option JValue} {s : PS} :
    ∀ n, machineMeasure value s < n → runF o n stack value s = some (run o stack value s) := by
  fun_induction run o stack value s
  all_goals intro n hn
  all_goals (cases n with | zero => omega | succ n => ?_)
  all_goals (rw [runF]; try simp only [*])
  all_goals (try (rename_i ih; apply ih))
  all_goals (try (have := parseFragment_len ‹parseFragment _ _ _ = _›))
  all_goals (try (have := contArray_len ‹contArray _ _ = _›))
  all_goals (try (have := contObject_len ‹contObject _ _ _ = _›))
  all_goals (try (have := endFragment_len ‹PS.endFragment _ _ = _›))
  all_goals (simp only [machineMeasure] at *)
  all_goals (try simp at *)
  all_goals (try omega)

end JsonVerif

namespace JsonVerif

/-- kernel-evaluable form of `parseChars` (budgeted machine) -/
def parseCharsF (o : ParseOptions) (cs : List Char) (bad : Bool) : Except PErr (JValue × List CMEntry) :=
  match runF o (2 * cs.length + 2) [] none { rest := cs, bad := bad, pos := 0, cm := #[] } with
  | some (.ok (v, s)) => .ok (v, s.cm.toList)
  | some (.error e) => .error e
  | none => .error .panic

theorem parseCharsF_eq (o : ParseOptions) (cs : List Char) (bad : Bool) :
    parseCharsF o cs bad = parseChars o cs bad := by
  unfold parseCharsF parseChars
  rw [runF_eq_run _ (by simp [machineMeasure])]
  cases run o [] none { rest := cs, bad := bad, pos := 0, cm := #[] } with
  | error e => rfl
  | ok r => rfl

def errOf {α : Type} : Except PErr α → Option PErr
  | .error e => some e
  | .ok _ => none

def isOk {α : Type} : Except PErr α → Bool
  | .ok _ => true
  | .error _ => false

end JsonVerif
