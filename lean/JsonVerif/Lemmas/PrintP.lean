import JsonVerif.Spec.Print
/-!
# Theorem P: the two-phase printer equals the documented layout

`pre` computes, for every container in pre-order, `Width (length of its one-line form)` when the
documented rule says "one line" and `Expanded` otherwise (width lemma); `emit`, consuming exactly
those sizes, writes `specPrint` (emission lemma, stated with an arbitrary suffix of remaining sizes
so that the induction goes through) and never indexes out of bounds.
-/
namespace JsonVerif

def szOf (o : PrintOptions) (v : JValue) : Size :=
  if inl o v then .width (oneLine o v).length else .expanded

theorem add_width (a b : Nat) : (Size.width a).add (.width b) = .width (a + b) := rfl
@[simp] theorem expanded_add (s : Size) : Size.expanded.add s = .expanded := by cases s <;> rfl
@[simp] theorem add_expanded (s : Size) : s.add Size.expanded = .expanded := by cases s <;> rfl

theorem applyLimit_eq (lim : Option Limit) (len w : Nat) :
    applyLimit lim len (.width w) = if withinLimit lim len w then .width w else .expanded := by
  cases lim with
  | none => simp [applyLimit, withinLimit]
  | some l =>
    cases l <;> simp only [applyLimit, withinLimit]
    · simp
    · split <;> simp_all
    · split <;> simp_all
    · split <;> simp_all <;> omega

@[simp] theorem spaces_length (n : Nat) : (spaces n).length = n := by simp [spaces]

theorem escapeChar_length (c : Char) : (escapeChar c).length = escapeWidth c := by
  unfold escapeChar escapeWidth
  repeat' split
  all_goals simp_all

theorem stringLiteral_length (s : List Char) : (stringLiteral s).length = printedStringSize s := by
  unfold stringLiteral printedStringSize
  have : (s.flatMap escapeChar).length = (s.map escapeWidth).sum := by
    induction s with
    | nil => rfl
    | cons c r ih => simp [List.flatMap_cons, escapeChar_length, ih]
  simp [this]; omega

theorem keyText_length (o : PrintOptions) (k : List Char) :
    (keyText o k).length = printedStringSize k + 1 + o.objectBeforeColon + o.objectAfterColon := by
  simp [keyText, stringLiteral_length]; omega

theorem arrSep_length (o : PrintOptions) :
    (arrSep o).length = 1 + o.arrayBeforeComma + o.arrayAfterComma := by simp [arrSep]; omega
theorem objSep_length (o : PrintOptions) :
    (objSep o).length = 1 + o.objectBeforeComma + o.objectAfterComma := by simp [objSep]; omega

theorem boolText_length (b : Bool) : (boolText b).length = if b then 4 else 5 := by
  cases b <;> rfl

-- width lemma
mutual
theorem pre_fst (o : PrintOptions) : ∀ v, (pre o v).1 = szOf o v
  | .null => by simp [pre, szOf, inl, oneLine, nullText]
  | .bool b => by simp [pre, szOf, inl, oneLine, boolText_length]
  | .number n => by simp [pre, szOf, inl, oneLine]
  | .string s => by simp [pre, szOf, inl, oneLine, stringLiteral_length]
  | .array xs => by
    have hl := preL_fst o xs 0 (2 + o.arrayBegin + o.arrayEnd)
    simp only [pre]
    cases xs with
    | nil =>
      have : (2 + o.arrayEmpty) = o.arrayEmpty + 1 + 1 := by omega
      simp [szOf, inl, inlL, oneLine, applyLimit_eq, this]
    | cons x xs =>
      simp only [List.isEmpty_cons, Bool.false_eq_true, ↓reduceIte]
      rw [hl]
      by_cases hi : inlL o (x :: xs)
      · have hlen : (oneLine o (.array (x :: xs))).length
             = 2 + o.arrayBegin + o.arrayEnd + (oneLineL o (x :: xs) 0).length := by
          simp [oneLine]; omega
        simp only [hi, ↓reduceIte, applyLimit_eq, szOf, inl, Bool.true_and, List.length_cons, ← hlen]
      · simp [hi, applyLimit, szOf, inl]
  | .object es => by
    have hl := preM_fst o es 0 (2 + o.objectBegin + o.objectEnd)
    simp only [pre]
    cases es with
    | nil =>
      have : (2 + o.objectEmpty) = o.objectEmpty + 1 + 1 := by omega
      simp [szOf, inl, inlM, oneLine, applyLimit_eq, this]
    | cons e es =>
      simp only [List.isEmpty_cons, Bool.false_eq_true, ↓reduceIte]
      rw [hl]
      by_cases hi : inlM o (e :: es)
      · have hlen : (oneLine o (.object (e :: es))).length
             = 2 + o.objectBegin + o.objectEnd + (oneLineM o (e :: es) 0).length := by
          simp [oneLine]; omega
        simp only [hi, ↓reduceIte, applyLimit_eq, szOf, inl, Bool.true_and, List.length_cons, ← hlen]
      · simp [hi, applyLimit, szOf, inl]
theorem preL_fst (o : PrintOptions) : ∀ xs i a, (preL o xs i (.width a)).1 =
    if inlL o xs then .width (a + (oneLineL o xs i).length) else .expanded
  | [], i, a => by simp [preL, inlL, oneLineL]
  | x :: xs, i, a => by
    simp only [preL, inlL, oneLineL]
    have hx := pre_fst o x
    by_cases hix : inl o x
    · simp only [szOf, hix, ↓reduceIte] at hx
      by_cases hi : i > 0
      · simp only [hi, ↓reduceIte, add_width, hx]
        rw [preL_fst o xs (i+1)]
        simp [hix, arrSep_length]; split <;> simp; omega
      · simp only [hi, ↓reduceIte, add_width, hx]
        rw [preL_fst o xs (i+1)]
        simp [hix]; split <;> simp; omega
    · simp only [szOf, hix] at hx
      have : ∀ (acc : Size), (preL o xs (i+1) (acc.add (pre o x).1)).1 = .expanded := by
        intro acc; rw [hx]; simp; exact preL_exp o xs (i+1)
      simp [hix, this]
theorem preL_exp (o : PrintOptions) : ∀ xs i, (preL o xs i .expanded).1 = .expanded
  | [], i => by simp [preL]
  | x :: xs, i => by simp only [preL]; split <;> simp [preL_exp o xs (i+1)]
theorem preM_fst (o : PrintOptions) : ∀ es i a, (preM o es i (.width a)).1 =
    if inlM o es then .width (a + (oneLineM o es i).length) else .expanded
  | [], i, a => by simp [preM, inlM, oneLineM]
  | (k, x) :: es, i, a => by
    simp only [preM, inlM, oneLineM]
    have hx := pre_fst o x
    by_cases hix : inl o x
    · simp only [szOf, hix, ↓reduceIte] at hx
      by_cases hi : i > 0
      · simp only [hi, ↓reduceIte, add_width, hx]
        rw [preM_fst o es (i+1)]
        simp [hix, objSep_length, keyText_length]; split <;> simp; omega
      · simp only [hi, ↓reduceIte, add_width, hx]
        rw [preM_fst o es (i+1)]
        simp [hix, keyText_length]; split <;> simp; omega
    · simp only [szOf, hix] at hx
      have : ∀ (acc : Size), (preM o es (i+1) (acc.add (pre o x).1)).1 = .expanded := by
        intro acc; rw [hx]; simp; exact preM_exp o es (i+1)
      simp [hix, this]
theorem preM_exp (o : PrintOptions) : ∀ es i, (preM o es i .expanded).1 = .expanded
  | [], i => by simp [preM]
  | (k, x) :: es, i => by simp only [preM]; split <;> simp [preM_exp o es (i+1)]
end

theorem pre_snd_arr (o : PrintOptions) (xs : List JValue) :
    (pre o (.array xs)).2 =
      szOf o (.array xs) :: (preL o xs 0 (.width (2 + o.arrayBegin + o.arrayEnd))).2 := by
  have h := pre_fst o (.array xs)
  simp only [pre] at h ⊢
  rw [h]

theorem pre_snd_obj (o : PrintOptions) (es : List (List Char × JValue)) :
    (pre o (.object es)).2 =
      szOf o (.object es) :: (preM o es 0 (.width (2 + o.objectBegin + o.objectEnd))).2 := by
  have h := pre_fst o (.object es)
  simp only [pre] at h ⊢
  rw [h]

theorem spec_inl (o : PrintOptions) (ind : Nat) : ∀ v, inl o v = true → specPrint o ind v = oneLine o v
  | .null, _ => by simp [specPrint, oneLine]
  | .bool _, _ => by simp [specPrint, oneLine]
  | .number _, _ => by simp [specPrint, oneLine]
  | .string _, _ => by simp [specPrint, oneLine]
  | .array xs, h => by simp [specPrint, h]
  | .object es, h => by simp [specPrint, h]

theorem preL_snd_acc (o : PrintOptions) : ∀ xs i a b, (preL o xs i a).2 = (preL o xs i b).2
  | [], _, _, _ => by simp [preL]
  | x :: xs, i, a, b => by
    simp only [preL]
    rw [preL_snd_acc o xs (i+1) _ (Size.expanded)]
    conv => rhs; rw [preL_snd_acc o xs (i+1) _ (Size.expanded)]

theorem preM_snd_acc (o : PrintOptions) : ∀ es i a b, (preM o es i a).2 = (preM o es i b).2
  | [], _, _, _ => by simp [preM]
  | (k, x) :: es, i, a, b => by
    simp only [preM]
    rw [preM_snd_acc o es (i+1) _ (Size.expanded)]
    conv => rhs; rw [preM_snd_acc o es (i+1) _ (Size.expanded)]

-- emission lemma
mutual
theorem emit_eq (o : PrintOptions) :
    ∀ v ind rest, emit o ind v ((pre o v).2 ++ rest) = some (specPrint o ind v, rest)
  | .null, ind, rest => by simp [emit, pre, specPrint]
  | .bool _, ind, rest => by simp [emit, pre, specPrint]
  | .number _, ind, rest => by simp [emit, pre, specPrint]
  | .string _, ind, rest => by simp [emit, pre, specPrint]
  | .array xs, ind, rest => by
    rw [pre_snd_arr]
    cases xs with
    | nil =>
      simp only [List.cons_append, emit, List.isEmpty_nil, ↓reduceIte, preL, List.nil_append]
      by_cases hi : inl o (.array [])
      · simp [szOf, hi, specPrint, oneLine]
      · simp [szOf, hi, specPrint]
    | cons x xs =>
      simp only [List.cons_append, emit, List.isEmpty_cons, Bool.false_eq_true, ↓reduceIte]
      by_cases hi : inl o (.array (x :: xs))
      · have hil : inlL o (x :: xs) = true := by simp [inl] at hi; exact hi.1
        simp only [szOf, hi, ↓reduceIte]
        rw [emitL_inl o (x :: xs) 0 _ ind rest hil]
        simp [specPrint, hi, oneLine]
      · simp only [szOf, hi]
        rw [emitL_exp o (x :: xs) 0 _ ind rest]
        simp [specPrint, hi]
  | .object es, ind, rest => by
    rw [pre_snd_obj]
    cases es with
    | nil =>
      simp only [List.cons_append, emit, List.isEmpty_nil, ↓reduceIte, preM, List.nil_append]
      by_cases hi : inl o (.object [])
      · simp [szOf, hi, specPrint, oneLine]
      · simp [szOf, hi, specPrint]
    | cons e es =>
      simp only [List.cons_append, emit, List.isEmpty_cons, Bool.false_eq_true, ↓reduceIte]
      by_cases hi : inl o (.object (e :: es))
      · have hil : inlM o (e :: es) = true := by simp [inl] at hi; exact hi.1
        simp only [szOf, hi, ↓reduceIte]
        rw [emitM_inl o (e :: es) 0 _ ind rest hil]
        simp [specPrint, hi, oneLine]
      · simp only [szOf, hi]
        rw [emitM_exp o (e :: es) 0 _ ind rest]
        simp [specPrint, hi]
theorem emitL_exp (o : PrintOptions) : ∀ xs i a ind rest,
    emitL o ind true xs i ((preL o xs i a).2 ++ rest) = some (specL o ind xs i, rest)
  | [], i, a, ind, rest => by simp [emitL, preL, specL]
  | x :: xs, i, a, ind, rest => by
    simp only [preL, emitL, List.append_assoc]
    rw [emit_eq o x (ind+1)]
    simp only []
    rw [emitL_exp o xs (i+1) _ ind rest]
    simp [specL]
theorem emitL_inl (o : PrintOptions) : ∀ xs i a ind rest, inlL o xs = true →
    emitL o ind false xs i ((preL o xs i a).2 ++ rest) = some (oneLineL o xs i, rest)
  | [], i, a, ind, rest, _ => by simp [emitL, preL, oneLineL]
  | x :: xs, i, a, ind, rest, h => by
    simp only [inlL, Bool.and_eq_true] at h
    simp only [preL, emitL, List.append_assoc]
    rw [emit_eq o x (ind+1)]
    simp only []
    rw [emitL_inl o xs (i+1) _ ind rest h.2, spec_inl o (ind+1) x h.1]
    simp [oneLineL, arrSep]
theorem emitM_exp (o : PrintOptions) : ∀ es i a ind rest,
    emitM o ind true es i ((preM o es i a).2 ++ rest) = some (specM o ind es i, rest)
  | [], i, a, ind, rest => by simp [emitM, preM, specM]
  | (k, x) :: es, i, a, ind, rest => by
    simp only [preM, emitM, List.append_assoc]
    rw [emit_eq o x (ind+1)]
    simp only []
    rw [emitM_exp o es (i+1) _ ind rest]
    simp [specM, keyText]
theorem emitM_inl (o : PrintOptions) : ∀ es i a ind rest, inlM o es = true →
    emitM o ind false es i ((preM o es i a).2 ++ rest) = some (oneLineM o es i, rest)
  | [], i, a, ind, rest, _ => by simp [emitM, preM, oneLineM]
  | (k, x) :: es, i, a, ind, rest, h => by
    simp only [inlM, Bool.and_eq_true] at h
    simp only [preM, emitM, List.append_assoc]
    rw [emit_eq o x (ind+1)]
    simp only []
    rw [emitM_inl o es (i+1) _ ind rest h.2, spec_inl o (ind+1) x h.1]
    simp [oneLineM, objSep, keyText]
end

/-- **Theorem P.** For every value, option record and starting indentation, the two-phase printer
    writes exactly the documented layout, and its `sizes[*index]` indexing never panics. -/
theorem printer_eq_spec (o : PrintOptions) (v : JValue) (ind : Nat) :
    printWith o ind v = some (specPrint o ind v) := by
  have := emit_eq o v ind []
  simp only [List.append_nil] at this
  simp [printWith, this]

end JsonVerif
