import JsonVerif.Lemmas.NoPanic
import JsonVerif.Lemmas.Viable
/-!
# Closing lemma: from any well-formed machine configuration some input makes the run succeed

`zcomp stack value` is the shortest such input: a `0` when a value is awaited, then one closing
bracket per open container. The run on it succeeds from ANY state whose code-map indices cover the
stack (state-agnostic: it is assembled from the completeness lemmas of the lexical layer).
-/
namespace JsonVerif

def closers : List StackItem → List Char
  | [] => []
  | .array _ _ :: k => ']' :: closers k
  | .arrayItem _ _ :: k => ']' :: closers k
  | .object _ _ :: k => '}' :: closers k
  | .objectEntry _ _ _ _ :: k => '}' :: closers k

def zcomp (stack : List StackItem) (value : Option JValue) : List Char :=
  match stack, value with
  | [], none => ['0']
  | .arrayItem _ _ :: _, none => '0' :: closers stack
  | .objectEntry _ _ _ _ :: _, none => '0' :: closers stack
  | _, _ => closers stack

theorem gnumber_zero : GNumber ['0'] := by
  have := GNumber.pos ['0'] [] [] GInt.zero GFrac.none GExp.none
  simpa using this

theorem followOK_closers_array (k : List StackItem) : FollowOK .array (']' :: closers k) := by
  intro c r h; cases h; decide
theorem followOK_closers_object (k : List StackItem) : FollowOK .objectValue ('}' :: closers k) := by
  intro c r h; cases h; decide
theorem followOK_nil (ctx : Ctx) : FollowOK ctx [] := by intro c r h; cases h

theorem isWsL_nil : IsWsL [] := IsWsL.nil

/-- the value `0` is read from `0 ++ r` in any context whose followers include the head of `r` -/
theorem parse_zero {ctx : Ctx} {t : PS} {r : List Char} (hs : t.rest = '0' :: r) (hf : FollowOK ctx r)
    (hb : t.bad = false) :
    ∃ t', parseFragment allOpts ctx t = .ok (.value (.number ['0']), t') ∧ Post t t' r := by
  have hv : LValue allOpts ['0'] (.number ['0']) := .number _ gnumber_zero
  exact Len.parseFragment_leaf_complete (w := []) hv trivial (by simpa using hs) isWsL_nil hf hb

theorem run_close : ∀ (stack : List StackItem) (value : Option JValue) (t : PS),
    StackOk t.cm.size stack → t.bad = false → t.rest = zcomp stack value →
    ∃ res, run allOpts stack value t = .ok res := by
  intro stack
  induction stack with
  | nil =>
    intro value t _ hb hr
    cases value with
    | some v =>
      simp only [zcomp, closers] at hr
      rw [run]
      have : skipWs t = .ok t := by
        unfold skipWs; simp [hr, skipWsL, hb]; cases t; simp_all
      simp [this, hr]
    | none =>
      simp only [zcomp] at hr
      obtain ⟨t', h1, p1⟩ := parse_zero (ctx := .none) hr (followOK_nil _) hb
      have hfin : ∃ res, run allOpts [] (some (.number ['0'])) t' = .ok res := by
        rw [run]
        have hr' := p1.rest
        have hb' : t'.bad = false := by rw [p1.bad]; exact hb
        have : skipWs t' = .ok t' := by
          unfold skipWs; simp only [hr', skipWsL, hb']; cases t'; simp_all
        simp [this, hr']
      obtain ⟨res, hres⟩ := hfin
      refine ⟨res, ?_⟩
      rw [run]
      split
      · rename_i heq; rw [h1] at heq; cases heq
      · rename_i heq; rw [h1] at heq; cases heq; exact hres
      · rename_i heq; rw [h1] at heq; cases heq
      · rename_i heq; rw [h1] at heq; cases heq
  | cons item k ih =>
    -- closing an array / object frame whose bracket is next
    have harr : ∀ (a : List JValue) (i : Nat) (value : Option JValue) (t : PS),
        i < t.cm.size → StackOk t.cm.size k → t.bad = false → t.rest = ']' :: closers k →
        ∃ res, run allOpts (.array a i :: k) value t = .ok res := by
      intro a i value t hi hk hb hr
      obtain ⟨t', h1, p1⟩ := contArray_end_complete (i := i) (s := t) (w := []) (by simpa using hr) isWsL_nil hb hi
      obtain ⟨res, hres⟩ := ih (some (.array a)) t' (StackOk.mono p1.cm hk) (by rw [p1.bad]; exact hb)
        (by rw [p1.rest]; cases k <;> simp [zcomp] <;> (rename_i it _; cases it <;> rfl))
      refine ⟨res, ?_⟩
      rw [run]
      split <;> simp_all
    have hobj : ∀ (es : List JEntry) (i : Nat) (value : Option JValue) (t : PS),
        i < t.cm.size → StackOk t.cm.size k → t.bad = false → t.rest = '}' :: closers k →
        ∃ res, run allOpts (.object es i :: k) value t = .ok res := by
      intro es i value t hi hk hb hr
      obtain ⟨t', h1, p1⟩ := Len.contObject_end_complete (o := allOpts) (i := i) (s := t) (w := [])
        (by simpa using hr) isWsL_nil hb hi
      obtain ⟨res, hres⟩ := ih (some (.object es)) t' (StackOk.mono p1.cm hk) (by rw [p1.bad]; exact hb)
        (by rw [p1.rest]; cases k <;> simp [zcomp] <;> (rename_i it _; cases it <;> rfl))
      refine ⟨res, ?_⟩
      rw [run]
      split <;> simp_all
    intro value t hok hb hr
    cases item with
    | array a i =>
      obtain ⟨hi, hk⟩ := hok
      exact harr a i value t hi hk hb (by cases value <;> simpa [zcomp, closers] using hr)
    | object es i =>
      obtain ⟨hi, hk⟩ := hok
      exact hobj es i value t hi hk hb (by cases value <;> simpa [zcomp, closers] using hr)
    | arrayItem a i =>
      obtain ⟨hi, hk⟩ := hok
      cases value with
      | some v =>
        obtain ⟨res, hres⟩ := harr (a ++ [v]) i none t hi hk hb (by simpa [zcomp, closers] using hr)
        exact ⟨res, by rw [run]; exact hres⟩
      | none =>
        simp only [zcomp, closers] at hr
        obtain ⟨t', h1, p1⟩ := parse_zero (ctx := .array) hr (followOK_closers_array k) hb
        obtain ⟨res, hres⟩ := harr (a ++ [.number ['0']]) i none t' (Nat.lt_of_lt_of_le hi p1.cm)
          (StackOk.mono p1.cm hk) (by rw [p1.bad]; exact hb) p1.rest
        refine ⟨res, ?_⟩
        rw [run]
        split <;> simp_all
    | objectEntry es i key e =>
      obtain ⟨hi, he, hk⟩ := hok
      cases value with
      | some v =>
        simp only [zcomp, closers] at hr
        obtain ⟨t', h1, p1⟩ := endFragment_ok (s := t) (i := e) he
        obtain ⟨res, hres⟩ := hobj (es ++ [(key, v)]) i none t' (Nat.lt_of_lt_of_le hi p1.cm)
          (StackOk.mono p1.cm hk) (by rw [p1.bad]; exact hb) (by rw [p1.rest]; exact hr)
        refine ⟨res, ?_⟩
        rw [run]
        split <;> simp_all
      | none =>
        simp only [zcomp, closers] at hr
        obtain ⟨t', h1, p1⟩ := parse_zero (ctx := .objectValue) hr (followOK_closers_object k) hb
        obtain ⟨t'', h2, p2⟩ := endFragment_ok (s := t') (i := e) (Nat.lt_of_lt_of_le he p1.cm)
        obtain ⟨res, hres⟩ := hobj (es ++ [(key, .number ['0'])]) i none t''
          (Nat.lt_of_lt_of_le hi (Nat.le_trans p1.cm p2.cm))
          (StackOk.mono (Nat.le_trans p1.cm p2.cm) hk) (by rw [p2.bad, p1.bad]; exact hb)
          (by rw [p2.rest, p1.rest])
        refine ⟨res, ?_⟩
        rw [run]
        split <;> simp_all <;> (split <;> simp_all)

end JsonVerif
