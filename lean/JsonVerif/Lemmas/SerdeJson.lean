import JsonVerif.Model.SerdeJson
/-! # serde_json → json-syntax → serde_json is the identity (C18, first clause) -/
namespace JsonVerif
variable {SNum : Type}

-- well-formed serde_json values: object keys strictly ascending (what a BTreeMap holds), numbers
-- satisfying the representation invariant `P`
mutual
def SJ.WF (lt : List Char → List Char → Bool) (P : SNum → Prop) : SJ SNum → Prop
  | .number n => P n
  | .array xs => SJ.WFL lt P xs
  | .object es => SJ.WFM lt P es ∧ (es.map (·.1)).Pairwise (fun a b => lt a b = true)
  | _ => True
def SJ.WFL (lt : List Char → List Char → Bool) (P : SNum → Prop) : List (SJ SNum) → Prop
  | [] => True
  | x :: xs => SJ.WF lt P x ∧ SJ.WFL lt P xs
def SJ.WFM (lt : List Char → List Char → Bool) (P : SNum → Prop) : List (List Char × SJ SNum) → Prop
  | [] => True
  | (_, x) :: es => SJ.WF lt P x ∧ SJ.WFM lt P es
end

/-- inserting a key larger than every key present appends it -/
theorem mapInsert_append (lt : List Char → List Char → Bool)
    (hirr : ∀ a, lt a a = false) (hasym : ∀ a b, lt a b = true → lt b a = false)
    (k : List Char) (v : SJ SNum) :
    ∀ (acc : List (List Char × SJ SNum)), (∀ l ∈ acc.map (·.1), lt l k = true) →
      mapInsert lt k v acc = acc ++ [(k, v)]
  | [], _ => rfl
  | (l, w) :: r, h => by
    have hl : lt l k = true := h l (by simp)
    have h1 : lt k l = false := hasym l k hl
    have h2 : (k == l) = false := by
      cases hkl : k == l with
      | false => rfl
      | true => simp only [beq_iff_eq] at hkl; subst hkl; rw [hirr] at hl; cases hl
    simp only [mapInsert, h1, h2, Bool.false_eq_true, ↓reduceIte, List.cons_append]
    rw [mapInsert_append lt hirr hasym k v r (fun l' hl' => h l' (by simp at hl' ⊢; exact Or.inr hl'))]

mutual
theorem into_from (lt : List Char → List Char → Bool) (disp : SNum → List Char)
    (conv : List Char → Option SNum)
    (hirr : ∀ a, lt a a = false) (hasym : ∀ a b, lt a b = true → lt b a = false)
    (htr : ∀ a b c, lt a b = true → lt b c = true → lt a c = true)
    (P : SNum → Prop) (hnum : ∀ n, P n → conv (disp n) = some n) :
    ∀ x : SJ SNum, SJ.WF lt P x → intoSj lt conv (fromSj disp x) = x
  | .null, _ => rfl
  | .bool _, _ => rfl
  | .number n, h => by simp [fromSj, intoSj, hnum n h]
  | .string _, _ => rfl
  | .array xs, h => by
    simp only [fromSj, intoSj]; rw [into_fromL lt disp conv hirr hasym htr P hnum xs h]
  | .object es, h => by
    simp only [fromSj, intoSj]
    have := into_fromM lt disp conv hirr hasym htr P hnum es [] h.1 (by simpa using h.2) (by simp)
    simpa using this
theorem into_fromL (lt : List Char → List Char → Bool) (disp : SNum → List Char)
    (conv : List Char → Option SNum)
    (hirr : ∀ a, lt a a = false) (hasym : ∀ a b, lt a b = true → lt b a = false)
    (htr : ∀ a b c, lt a b = true → lt b c = true → lt a c = true)
    (P : SNum → Prop) (hnum : ∀ n, P n → conv (disp n) = some n) :
    ∀ xs : List (SJ SNum), SJ.WFL lt P xs → intoSjL lt conv (fromSjL disp xs) = xs
  | [], _ => rfl
  | x :: xs, h => by
    simp only [fromSjL, intoSjL]
    rw [into_from lt disp conv hirr hasym htr P hnum x h.1, into_fromL lt disp conv hirr hasym htr P hnum xs h.2]
theorem into_fromM (lt : List Char → List Char → Bool) (disp : SNum → List Char)
    (conv : List Char → Option SNum)
    (hirr : ∀ a, lt a a = false) (hasym : ∀ a b, lt a b = true → lt b a = false)
    (htr : ∀ a b c, lt a b = true → lt b c = true → lt a c = true)
    (P : SNum → Prop) (hnum : ∀ n, P n → conv (disp n) = some n) :
    ∀ (es acc : List (List Char × SJ SNum)), SJ.WFM lt P es →
      (es.map (·.1)).Pairwise (fun a b => lt a b = true) →
      (∀ l ∈ acc.map (·.1), ∀ k ∈ es.map (·.1), lt l k = true) →
      intoSjM lt conv (fromSjM disp es) acc = acc ++ es
  | [], acc, _, _, _ => by simp [fromSjM, intoSjM]
  | (k, x) :: es, acc, h, hs, hacc => by
    simp only [fromSjM, intoSjM]
    rw [into_from lt disp conv hirr hasym htr P hnum x h.1]
    rw [mapInsert_append lt hirr hasym k x acc (fun l hl => hacc l hl k (by simp))]
    have hs' : (∀ k' ∈ es.map (·.1), lt k k' = true) ∧ (es.map (·.1)).Pairwise (fun a b => lt a b = true) := by
      simp only [List.map_cons] at hs
      exact List.pairwise_cons.mp hs
    rw [into_fromM lt disp conv hirr hasym htr P hnum es (acc ++ [(k, x)]) h.2 hs'.2]
    · simp
    · intro l hl k' hk'
      simp only [List.map_append, List.map_cons, List.map_nil, List.mem_append, List.mem_singleton] at hl
      rcases hl with hl | hl
      · exact hacc l hl k' (by simp at hk' ⊢; exact Or.inr hk')
      · subst hl; exact hs'.1 k' hk'
end

end JsonVerif
