import JsonVerif.Lemmas.ObjRemove
/-!
# `push_front`, and the removal iterators built on `remove_at` (C06)
-/
namespace JsonVerif
open Obj

theorem Bucket.shiftUp0_all (b : Bucket) : (b.shiftUp 0).all = b.all.map (· + 1) := by
  simp [Bucket.shiftUp, Bucket.all]

theorem keyAt_cons_succ (e : Key × JValue) (es : List (Key × JValue)) (i : Nat) :
    keyAt (e :: es) (i + 1) = keyAt es i := by simp [keyAt]

theorem posMask_cons_ge1 (e : Key × JValue) (es : List (Key × JValue)) (k : Key) :
    posMask (fun i => decide (1 ≤ i)) k (e :: es) = (posOf k es).map (· + 1) := by
  apply sorted_ext (posMask_sorted _ _ _)
  · rw [List.pairwise_map]
    exact (posOf_sorted k es).imp (fun h => by omega)
  · intro j
    simp only [mem_posMask, decide_eq_true_eq, List.mem_map, mem_posOf]
    constructor
    · rintro ⟨hk, hj⟩
      obtain ⟨i, rfl⟩ : ∃ i, j = i + 1 := ⟨j - 1, by omega⟩
      rw [keyAt_cons_succ] at hk
      exact ⟨i, hk, rfl⟩
    · rintro ⟨i, hk, rfl⟩
      rw [keyAt_cons_succ]
      exact ⟨hk, by omega⟩

/-- **push_front** (`push_front`, `push_entry_front`): never panics, prepends, keeps the index exact
    (every stored position is shifted up before the new entry is indexed), and reports `true` iff
    the key was absent. -/
theorem pushFront_inv {o : Obj} (h : Inv o) (k : Key) (v : JValue) :
    ∃ o' fresh, o.pushFront k v = some (o', fresh) ∧ Inv o' ∧ o'.entries = (k, v) :: o.entries ∧
      (fresh = true ↔ posOf k o.entries = []) := by
  have h1 : InvMask (fun i => decide (1 ≤ i)) ((k, v) :: o.entries) (indexShiftUp o.buckets 0) := by
    refine ⟨?_, ?_, ?_⟩
    · simp only [indexShiftUp, List.map_map]
      have : ((fun b : Bucket => b.gkey) ∘ fun b : Bucket => b.shiftUp 0) = fun b : Bucket => b.gkey := by
        funext b; rfl
      rw [this]; exact h.nodup
    · intro b hb
      simp only [indexShiftUp, List.mem_map] at hb
      obtain ⟨c, hc, rfl⟩ := hb
      rw [Bucket.shiftUp0_all, posMask_cons_ge1, h.exact c hc, posMask_true]
      rfl
    · intro k' hk'
      rw [posMask_cons_ge1] at hk'
      have : posOf k' o.entries ≠ [] := by intro e; rw [e] at hk'; exact hk' rfl
      obtain ⟨c, hc, hck⟩ := h.cover k' (by rw [posMask_true]; exact this)
      exact ⟨c.shiftUp 0, by simp only [indexShiftUp, List.mem_map]; exact ⟨c, hc, rfl⟩, hck⟩
  obtain ⟨bs', fresh, k', hk', hins, hinv, hfresh⟩ :=
    indexInsert_inv (j := 0) h1 (by simp)
  have hkk : k' = k := by
    unfold keyAt at hk'; simp at hk'; exact hk'.symm
  subst hkk
  refine ⟨⟨(k', v) :: o.entries, bs'⟩, fresh, ?_, ?_, rfl, ?_⟩
  · unfold Obj.pushFront; simp only [hins]; rfl
  · apply hinv.congr
    intro i _
    simp only [maskAdd]
    by_cases hi : i = 0
    · simp [hi]
    · have : 1 ≤ i := by omega
      simp [this]
  · rw [hfresh, posMask_cons_ge1]
    simp

/-! ## The removal loop -/

/-- `q` is the first position at or after `m` whose entry carries `k` -/
def FirstFrom (k : Key) (m : Nat) (es : List (Key × JValue)) (q : Nat) : Prop :=
  m ≤ q ∧ keyAt es q = some k ∧ ∀ j, m ≤ j → j < q → keyAt es j ≠ some k

/-- no entry at or after `m` carries `k` -/
def NoneFrom (k : Key) (m : Nat) (es : List (Key × JValue)) : Prop :=
  ∀ j, m ≤ j → keyAt es j ≠ some k

def hasKey (k : Key) (e : Key × JValue) : Bool := e.1 == k

theorem filter_none_from {k : Key} {m : Nat} {es : List (Key × JValue)} (h : NoneFrom k m es) :
    (es.drop m).filter (hasKey k) = [] ∧ (es.drop m).filter (fun e => !hasKey k e) = es.drop m := by
  have : ∀ e ∈ es.drop m, hasKey k e = false := by
    intro e he
    obtain ⟨i, hi, rfl⟩ := List.getElem_of_mem he
    have hlen : m + i < es.length := by simp at hi; omega
    have := h (m + i) (by omega)
    unfold keyAt at this
    rw [List.getElem?_eq_getElem hlen] at this
    simp only [List.getElem_drop, hasKey]
    cases hb : es[m + i].1 == k with
    | false => rfl
    | true => simp only [beq_iff_eq] at hb; exact absurd (by simp [hb]) this
  constructor
  · rw [List.filter_eq_nil_iff]; intro e he; simp [this e he]
  · rw [List.filter_eq_self]; intro e he; simp [this e he]

/-- erasing the first `k`-entry at or after `m`: the prefix and the other keys' entries stay, the
    `k`-entries lose their first one -/
theorem filter_first_from {k : Key} {m q : Nat} {es : List (Key × JValue)} (h : FirstFrom k m es q) :
    ∃ e, es[q]? = some e ∧
      (es.eraseIdx q).take m = es.take m ∧
      ((es.eraseIdx q).drop m).filter (fun e => !hasKey k e) = (es.drop m).filter (fun e => !hasKey k e) ∧
      (es.drop m).filter (hasKey k) = e :: ((es.eraseIdx q).drop m).filter (hasKey k) := by
  obtain ⟨hmq, hkq, hbefore⟩ := h
  have hq : q < es.length := by
    unfold keyAt at hkq
    cases hh : es[q]? with
    | none => simp [hh] at hkq
    | some e => exact (List.getElem?_eq_some_iff.mp hh).1
  refine ⟨es[q], List.getElem?_eq_getElem hq, ?_, ?_, ?_⟩
  · rw [List.eraseIdx_eq_take_drop_succ, List.take_append_of_le_length (by simp; omega), List.take_take]
    congr 1; omega
  all_goals
    have hsplit : es.drop m = (es.take q).drop m ++ es[q] :: es.drop (q + 1) := by
      conv => lhs; rw [← List.take_append_drop q es]
      rw [List.drop_append_of_le_length (by simp; omega), List.drop_eq_getElem_cons hq]
    have hsplit' : (es.eraseIdx q).drop m = (es.take q).drop m ++ es.drop (q + 1) := by
      rw [List.eraseIdx_eq_take_drop_succ, List.drop_append_of_le_length (by simp; omega)]
    have hA : ∀ e ∈ (es.take q).drop m, hasKey k e = false := by
      intro e he
      obtain ⟨i, hi, rfl⟩ := List.getElem_of_mem he
      simp at hi
      have := hbefore (m + i) (by omega) (by omega)
      unfold keyAt at this
      rw [List.getElem?_eq_getElem (by omega)] at this
      simp only [List.getElem_drop, List.getElem_take, hasKey]
      cases hb : es[m + i].1 == k with
      | false => rfl
      | true => simp only [beq_iff_eq] at hb; exact absurd (by simp [hb]) this
    have hkq' : hasKey k es[q] = true := by
      unfold keyAt at hkq
      rw [List.getElem?_eq_getElem hq] at hkq
      simp at hkq
      simp [hasKey, hkq]
  · rw [hsplit, hsplit', List.filter_append, List.filter_append,
      List.filter_cons_of_neg (by simp [hkq'])]
  · rw [hsplit, hsplit']
    simp only [List.filter_append, List.filter_cons, hkq', if_true]
    have : ((es.take q).drop m).filter (hasKey k) = [] := by
      rw [List.filter_eq_nil_iff]; intro e he; simp [hA e he]
    rw [this]; rfl

/-- the generic removal loop: as long as `pick` names the first `k`-entry at or after `m`, the loop
    removes exactly the `k`-entries at or after `m`, in order, and nothing else -/
theorem drain_spec {k : Key} {m : Nat} {pick : Obj → Option Nat} {T : List (Key × JValue)}
    (hpick : ∀ o : Obj, Inv o → o.entries.take m = T →
      (∃ q, pick o = some q ∧ FirstFrom k m o.entries q) ∨ (pick o = none ∧ NoneFrom k m o.entries)) :
    ∀ (n : Nat) (o : Obj) (acc : List (Key × JValue)), Inv o → o.entries.take m = T → o.entries.length ≤ n →
      ∃ o', drain pick n o acc = some (o', acc ++ (o.entries.drop m).filter (hasKey k)) ∧ Inv o' ∧
        o'.entries = o.entries.take m ++ (o.entries.drop m).filter (fun e => !hasKey k e) := by
  intro n
  induction n with
  | zero =>
    intro o acc h _ hn
    have : o.entries = [] := List.eq_nil_of_length_eq_zero (by omega)
    exact ⟨o, by simp [drain, this], h, by simp [this]⟩
  | succ n ih =>
    intro o acc h hT hn
    rcases hpick o h hT with ⟨q, hq, hfirst⟩ | ⟨hnone, hnf⟩
    · obtain ⟨e, heq, htake, hne, heq'⟩ := filter_first_from hfirst
      obtain ⟨o1, hr, h1, he1⟩ := removeAt_inv h q
      have hqlt : q < o.entries.length := (List.getElem?_eq_some_iff.mp heq).1
      obtain ⟨o', hd, h', he'⟩ := ih o1 (acc ++ [e]) h1 (by rw [he1, htake, hT])
        (by rw [he1, List.length_eraseIdx_of_lt hqlt]; omega)
      refine ⟨o', ?_, h', ?_⟩
      · simp only [drain, hq, hr, heq]
        rw [hd, he1, heq']; simp
      · rw [he', he1, htake, hne]
    · obtain ⟨f1, f2⟩ := filter_none_from hnf
      refine ⟨o, by simp [drain, hnone, f1], h, ?_⟩
      rw [f2, List.take_append_drop]

/-- the head of the position list is the first position of the key -/
theorem posOf_head_first {k : Key} {es : List (Key × JValue)} :
    (∃ q, (posOf k es).head? = some q ∧ FirstFrom k 0 es q) ∨ ((posOf k es).head? = none ∧ NoneFrom k 0 es) := by
  cases hp : posOf k es with
  | nil =>
    right
    refine ⟨rfl, fun j _ hj => ?_⟩
    have := mem_posOf.mpr hj
    rw [hp] at this; cases this
  | cons q r =>
    left
    refine ⟨q, rfl, Nat.zero_le _, mem_posOf.mp (by rw [hp]; exact List.mem_cons_self), ?_⟩
    intro j _ hjq hj
    have hm := mem_posOf.mpr hj
    rw [hp] at hm
    have hs := posOf_sorted k es
    rw [hp] at hs
    rcases List.mem_cons.mp hm with rfl | hm'
    · omega
    · have := (List.pairwise_cons.mp hs).1 j hm'; omega

/-- **remove(key)** (iterator consumed or dropped) and **remove_unique**: every entry carrying the
    key is removed and yielded in entry order; everything else stays in order; the index is exact. -/
theorem remove_inv {o : Obj} (h : Inv o) (k : Key) :
    ∃ o', o.remove k = some (o', o.entries.filter (hasKey k)) ∧ Inv o' ∧
      o'.entries = o.entries.filter (fun e => !hasKey k e) := by
  have := drain_spec (k := k) (m := 0) (pick := fun o => o.indexOf k) (T := [])
    (by
      intro o' h' _
      simp only [indexOf_eq h' k]
      exact posOf_head_first)
    o.entries.length o [] h (by simp) (Nat.le_refl _)
  simpa [Obj.remove] using this

/-- after the first position `p` of a key, the second stored position is the first one after `p` -/
theorem posOf_second {k : Key} {es : List (Key × JValue)} {p : Nat} (hp : FirstFrom k 0 es p) :
    (∃ q, (posOf k es)[1]? = some q ∧ FirstFrom k (p + 1) es q) ∨
    ((posOf k es)[1]? = none ∧ NoneFrom k (p + 1) es) := by
  obtain ⟨_, hkp, hbefore⟩ := hp
  have hs := posOf_sorted k es
  have hpm : p ∈ posOf k es := mem_posOf.mpr hkp
  cases hl : posOf k es with
  | nil => rw [hl] at hpm; cases hpm
  | cons a r =>
    rw [hl] at hs hpm
    have hc := List.pairwise_cons.mp hs
    have hap : a = p := by
      have ha : keyAt es a = some k := mem_posOf.mp (by rw [hl]; exact List.mem_cons_self)
      rcases List.mem_cons.mp hpm with e | e
      · exact e.symm
      · have h1 := hc.1 p e
        exact absurd ha (hbefore a (Nat.zero_le _) h1)
    subst hap
    cases hr : r with
    | nil =>
      right
      refine ⟨by simp, fun j hj hkj => ?_⟩
      have := mem_posOf.mpr hkj
      rw [hl, hr] at this
      simp at this; omega
    | cons q r' =>
      left
      rw [hr] at hc hl
      refine ⟨q, by simp, ?_, mem_posOf.mp (by rw [hl]; simp), ?_⟩
      · have := hc.1 q List.mem_cons_self; omega
      · intro j hj hjq hkj
        have hm := mem_posOf.mpr hkj
        rw [hl] at hm
        rcases List.mem_cons.mp hm with e | e
        · omega
        · rcases List.mem_cons.mp e with e' | e'
          · omega
          · have := (List.pairwise_cons.mp hc.2).1 j e'; omega

/-- `FirstFrom k 0 es p` only looks at the first `p + 1` entries -/
theorem firstFrom_of_take {k : Key} {es es' : List (Key × JValue)} {p : Nat}
    (h : FirstFrom k 0 es p) (ht : es'.take (p + 1) = es.take (p + 1)) : FirstFrom k 0 es' p := by
  have hkey : ∀ j, j ≤ p → keyAt es' j = keyAt es j := by
    intro j hj
    unfold keyAt
    have h1 : es'[j]? = (es'.take (p + 1))[j]? := by rw [List.getElem?_take_of_lt (by omega)]
    have h2 : es[j]? = (es.take (p + 1))[j]? := by rw [List.getElem?_take_of_lt (by omega)]
    rw [h1, h2, ht]
  obtain ⟨h0, h1, h2⟩ := h
  exact ⟨h0, by rw [hkey p (Nat.le_refl _)]; exact h1, fun j hj hjp => by rw [hkey j (by omega)]; exact h2 j hj hjp⟩

/-- the loop shared by `insert` and `insert_front`: with the first `k`-entry at `p`, remove every
    later `k`-entry -/
theorem drain_redundant {o : Obj} (h : Inv o) {k : Key} {p : Nat} (hp : FirstFrom k 0 o.entries p)
    (acc : List (Key × JValue)) :
    ∃ o', drain (fun o => (keyAt o.entries p).bind (fun key => o.redundantIndexOf key)) o.entries.length o acc =
        some (o', acc ++ (o.entries.drop (p + 1)).filter (hasKey k)) ∧ Inv o' ∧
      o'.entries = o.entries.take (p + 1) ++ (o.entries.drop (p + 1)).filter (fun e => !hasKey k e) := by
  refine drain_spec (k := k) (m := p + 1) (T := o.entries.take (p + 1)) ?_ o.entries.length o acc h rfl (Nat.le_refl _)
  intro o' h' hT
  have hp' := firstFrom_of_take hp hT
  simp only [hp'.2.1, Option.bind_some, redundantIndexOf_eq h' k]
  exact posOf_second hp'

theorem set_inv {o : Obj} (h : Inv o) {p : Nat} {k : Key} (hk : keyAt o.entries p = some k) (v : JValue) :
    Inv ⟨o.entries.set p (k, v), o.buckets⟩ := by
  refine ⟨h.nodup, ?_, ?_⟩
  · intro b hb
    rw [posMask_true, posOf_set_value _ hk, ← posMask_true]; exact h.exact b hb
  · intro k' hk'
    rw [posMask_true, posOf_set_value _ hk, ← posMask_true] at hk'; exact h.cover k' hk'

theorem firstFrom_set {k : Key} {es : List (Key × JValue)} {p : Nat} (hp : FirstFrom k 0 es p) (v : JValue) :
    FirstFrom k 0 (es.set p (k, v)) p := by
  have hkey : ∀ j, keyAt (es.set p (k, v)) j = keyAt es j := by
    intro j
    unfold keyAt
    rw [List.getElem?_set]
    split
    · rename_i e; subst e
      split
      · have := hp.2.1; unfold keyAt at this; simp [this]
      · rename_i hlt
        have : es[p]? = none := by simp; omega
        have h2 := hp.2.1; unfold keyAt at h2; simp [this] at h2
    · rfl
  exact ⟨hp.1, by rw [hkey]; exact hp.2.1, fun j a b => by rw [hkey]; exact hp.2.2 j a b⟩

theorem take_succ_set {α} : ∀ {l : List α} {p : Nat} (x : α), p < l.length →
    (l.set p x).take (p + 1) = l.take p ++ [x]
  | [], _, _, h => by simp at h
  | a :: l, 0, x, _ => by simp
  | a :: l, p + 1, x, h => by
    simp only [List.set_cons_succ, List.take_succ_cons, List.cons_append]
    rw [take_succ_set x (by simpa using h)]

theorem drop_succ_set {α} : ∀ {l : List α} {p : Nat} (x : α), (l.set p x).drop (p + 1) = l.drop (p + 1)
  | [], _, _ => by simp
  | a :: l, 0, x => by simp
  | a :: l, p + 1, x => by
    simp only [List.set_cons_succ, List.drop_succ_cons]
    exact drop_succ_set x

/-- **insert(key, value)**: a fresh key is appended; otherwise the first entry carrying the key is
    overwritten in place, every later entry carrying it is removed, and the old first entry followed
    by the removed ones (in order) is returned. The index stays exact. -/
theorem insert_inv {o : Obj} (h : Inv o) (k : Key) (v : JValue) :
    (posOf k o.entries = [] → ∃ o', o.insert k v = some (o', none) ∧ Inv o' ∧
        o'.entries = o.entries ++ [(k, v)]) ∧
    (∀ p, (posOf k o.entries).head? = some p → ∃ o' old, o.entries[p]? = some old ∧
        o.insert k v = some (o', some (old :: (o.entries.drop (p + 1)).filter (hasKey k))) ∧ Inv o' ∧
        o'.entries = o.entries.take p ++ (k, v) :: (o.entries.drop (p + 1)).filter (fun e => !hasKey k e)) := by
  constructor
  · intro hnone
    obtain ⟨o', fresh, hpush, h', he, _⟩ := push_inv h k v
    refine ⟨o', ?_, h', he⟩
    simp [Obj.insert, indexOf_eq h k, hnone, hpush]
  · intro p hp
    have hfirst : FirstFrom k 0 o.entries p := by
      rcases posOf_head_first (k := k) (es := o.entries) with ⟨q, hq, hf⟩ | ⟨hn, _⟩
      · rw [hp] at hq; cases hq; exact hf
      · rw [hp] at hn; cases hn
    have hplt : p < o.entries.length := by
      have := hfirst.2.1; unfold keyAt at this
      cases hh : o.entries[p]? with
      | none => simp [hh] at this
      | some e => exact (List.getElem?_eq_some_iff.mp hh).1
    have hold : o.entries[p]? = some o.entries[p] := List.getElem?_eq_getElem hplt
    have h1 : Inv ⟨o.entries.set p (k, v), o.buckets⟩ := set_inv h hfirst.2.1 v
    obtain ⟨o', hd, h', he'⟩ := drain_redundant h1 (firstFrom_set hfirst v) [o.entries[p]]
    refine ⟨o', o.entries[p], hold, ?_, h', ?_⟩
    · simp only [Obj.insert, indexOf_eq h k, hp, hold]
      simp only [List.length_set] at hd ⊢
      rw [hd]
      simp [List.drop_set]
    · rw [he']
      show List.take (p + 1) (o.entries.set p (k, v)) ++
        List.filter (fun e => !hasKey k e) (List.drop (p + 1) (o.entries.set p (k, v))) = _
      rw [take_succ_set _ hplt, drop_succ_set]
      simp

theorem firstFrom_zero {k : Key} {v : JValue} {rest : List (Key × JValue)} :
    FirstFrom k 0 ((k, v) :: rest) 0 :=
  ⟨Nat.le_refl _, by simp [keyAt], fun j _ hj => by omega⟩

/-- **insert_front(key, value)**: the new entry becomes the first one (overwriting the first entry
    in place if it already carries the key), every other entry carrying the key is removed and
    returned in entry order; the index stays exact. -/
theorem insertFront_inv {o : Obj} (h : Inv o) (k : Key) (v : JValue) :
    ∃ o', o.insertFront k v = some (o', o.entries.filter (hasKey k)) ∧ Inv o' ∧
      o'.entries = (k, v) :: o.entries.filter (fun e => !hasKey k e) := by
  obtain ⟨o1, fresh, hpf, h1, he1, _⟩ := pushFront_inv h k v
  have hd1 := drain_redundant h1 (k := k) (p := 0) (by rw [he1]; exact firstFrom_zero) []
  obtain ⟨o', hd, h', he'⟩ := hd1
  rw [he1] at hd he'
  simp only [List.length_cons, List.drop_succ_cons, List.drop_zero, List.nil_append, List.take_succ_cons,
    List.take_zero, List.cons_append] at hd he'
  cases hes : o.entries with
  | nil =>
    refine ⟨o', ?_, h', by rw [he', hes]⟩
    simp only [Obj.insertFront, hes, hpf, he1, List.length_cons]
    rw [hes] at hd
    simpa using hd
  | cons e0 rest =>
    obtain ⟨k0, v0⟩ := e0
    by_cases hk0 : k0 = k
    · subst hk0
      have hk00 : keyAt o.entries 0 = some k0 := by simp [keyAt, hes]
      have h2 : Inv ⟨(k0, v) :: rest, o.buckets⟩ := by
        have := set_inv h hk00 v
        simpa [hes] using this
      obtain ⟨o'', hd2, h'', he''⟩ := drain_redundant h2 (k := k0) (p := 0) firstFrom_zero [(k0, v0)]
      simp only [List.length_cons, List.drop_succ_cons, List.drop_zero, List.take_succ_cons,
        List.take_zero, List.cons_append, List.nil_append] at hd2 he''
      refine ⟨o'', ?_, h'', ?_⟩
      · simp only [Obj.insertFront, hes, if_true, List.length_cons]
        rw [hd2]
        simp [hasKey]
      · rw [he'']; simp [hasKey]
    · refine ⟨o', ?_, h', by rw [he', hes]⟩
      simp only [Obj.insertFront, hes, if_neg hk0]
      rw [← hes, hpf]
      simp only [he1, List.length_cons]
      rw [hes] at hd ⊢
      simpa using hd

/-- **remove_unique(key)** -/
theorem removeUnique_inv {o : Obj} (h : Inv o) (k : Key) :
    ∃ o', o.removeUnique k = some (o', match o.entries.filter (hasKey k) with
        | [] => .none
        | [e] => .one e
        | a :: b :: _ => .dup a b) ∧ Inv o' ∧
      o'.entries = o.entries.filter (fun e => !hasKey k e) := by
  obtain ⟨o', hr, h', he'⟩ := remove_inv h k
  refine ⟨o', ?_, h', he'⟩
  simp only [Obj.removeUnique, hr, Option.map_some]
  generalize List.filter (hasKey k) o.entries = l
  cases l with
  | nil => rfl
  | cons a r => cases r <;> rfl

/-- **get_or_insert_with(key, f)**: the first value carrying the key if there is one (object
    unchanged), else the new value, pushed at the end. -/
theorem getOrInsertWith_inv {o : Obj} (h : Inv o) (k : Key) (v : JValue) :
    ∃ o' r, o.getOrInsertWith k v = some (o', r) ∧ Inv o' ∧
      ((posOf k o.entries = [] ∧ o'.entries = o.entries ++ [(k, v)] ∧ r = v) ∨
       (∃ p e, (posOf k o.entries).head? = some p ∧ o.entries[p]? = some e ∧ o' = o ∧ r = e.2)) := by
  unfold Obj.getOrInsertWith
  rw [indexOf_eq h k]
  cases hp : (posOf k o.entries).head? with
  | none =>
    obtain ⟨o', fresh, hpush, h', he, _⟩ := push_inv h k v
    have hnil : posOf k o.entries = [] := by
      cases hl : posOf k o.entries with
      | nil => rfl
      | cons a r => rw [hl] at hp; cases hp
    exact ⟨o', v, by simp [hpush], h', .inl ⟨hnil, he, rfl⟩⟩
  | some p =>
    have hm : p ∈ posOf k o.entries := by
      cases hl : posOf k o.entries with
      | nil => rw [hl] at hp; cases hp
      | cons a r => rw [hl] at hp; cases hp; exact List.mem_cons_self
    have hk := mem_posOf.mp hm
    unfold keyAt at hk
    cases he : o.entries[p]? with
    | none => simp [he] at hk
    | some e => exact ⟨o, e.2, by simp [he], h, .inr ⟨p, e, rfl, he, rfl, rfl⟩⟩

end JsonVerif
