import JsonVerif.Lemmas.ErrAt
import JsonVerif.Lemmas.LenientStr
/-!
# Surrogate errors blame exactly the escape(s) at fault (last clause of C07)

`EscAt l₀ p₀ s e cu`: the input `l₀` (starting at byte offset `p₀`) contains an escape `\uXXXX`
writing the code unit `cu`, and `[s, e)` is exactly its `uXXXX` part (the reported spans start at
the `u`). Every surrogate error carries the code unit(s) written by the escape(s) its span covers;
for `InvalidLowSurrogate` the high-surrogate escape it also carries is the one directly before.
-/
namespace JsonVerif

def EscAt (l₀ : List Char) (p₀ s e cu : Nat) : Prop :=
  ∃ pre a b c d post, l₀ = pre ++ '\\' :: 'u' :: a :: b :: c :: d :: post ∧ hexCp a b c d = some cu ∧
    s = p₀ + utf8Len pre + 1 ∧ e = s + 5

def ErrIn (l₀ : List Char) (p₀ : Nat) : PErr → Prop
  | .missingLow s e h => EscAt l₀ p₀ s e h
  | .invalidLow s e h cp => EscAt l₀ p₀ s e cp ∧ 6 ≤ s ∧ EscAt l₀ p₀ (s - 6) (s - 1) h
  | .invalidCodePoint s e cp => EscAt l₀ p₀ s e cp
  | _ => True

def NotSurr : PErr → Prop
  | .missingLow _ _ _ => False
  | .invalidLow _ _ _ _ => False
  | .invalidCodePoint _ _ _ => False
  | _ => True

theorem errIn_of_notSurr {l₀ : List Char} {p₀ : Nat} {e : PErr} (h : NotSurr e) : ErrIn l₀ p₀ e := by
  cases e <;> first | trivial | exact h.elim

theorem EscAt.lift {l₀ p₀ l p s e cu} (h : AdvL l₀ p₀ l p) (he : EscAt l p s e cu) : EscAt l₀ p₀ s e cu := by
  obtain ⟨w0, e0, q0⟩ := h
  obtain ⟨pre, a, b, c, d, post, hl, hc, hs, hee⟩ := he
  exact ⟨w0 ++ pre, a, b, c, d, post, by rw [e0, hl]; simp, hc, by rw [hs, q0]; simp; omega, hee⟩

theorem ErrIn.lift {l₀ p₀ l p e} (h : AdvL l₀ p₀ l p) (he : ErrIn l p e) : ErrIn l₀ p₀ e := by
  cases e with
  | missingLow s e h' => exact EscAt.lift h he
  | invalidLow s e h' cp => exact ⟨EscAt.lift h he.1, he.2.1, EscAt.lift h he.2.2⟩
  | invalidCodePoint s e cp => exact EscAt.lift h he
  | _ => trivial

def ErrInS (s : PS) (e : PErr) : Prop := ErrIn s.rest s.pos e

theorem ErrInS.lift {s s' : PS} {e : PErr} (h : Adv s s') (he : ErrInS s' e) : ErrInS s e :=
  ErrIn.lift h.1 he

theorem hexVal_size {c : Char} {v : Nat} (h : hexVal c = some v) : c.utf8Size = 1 := by
  unfold hexVal at h
  have key : c.val ≤ 0x7f → c.utf8Size = 1 := by
    intro hh
    simp [Char.utf8Size, hh]
  apply key
  split at h
  · rename_i hc
    have : c.val ≤ ('9' : Char).val := hc.2
    have e : ('9' : Char).val = 57 := by decide
    rw [e] at this
    exact Nat.le_trans this (by decide)
  · split at h
    · rename_i hc
      have : c.val ≤ ('f' : Char).val := hc.2
      have e : ('f' : Char).val = 102 := by decide
      rw [e] at this
      exact Nat.le_trans this (by decide)
    · split at h
      · rename_i hc
        have : c.val ≤ ('F' : Char).val := hc.2
        have e : ('F' : Char).val = 70 := by decide
        rw [e] at this
        exact Nat.le_trans this (by decide)
      · cases h

theorem hexCp_sizes {a b c d : Char} {cp : Nat} (h : hexCp a b c d = some cp) :
    utf8Len [a, b, c, d] = 4 := by
  unfold hexCp at h
  split at h
  · rename_i x3 x2 x1 x0 h3 h2 h1 h0
    simp [hexVal_size h3, hexVal_size h2, hexVal_size h1, hexVal_size h0]
  · cases h

theorem eofErrAt_ns (bad : Bool) (pos : Nat) : NotSurr (eofErrAt bad pos) := by
  unfold eofErrAt; split <;> trivial

theorem hexDigitAt_ns {bad : Bool} {l : List Char} {pos : Nat} {e : PErr}
    (h : hexDigitAt bad l pos = .error e) : NotSurr e := by
  unfold hexDigitAt at h
  split at h
  · cases h; exact eofErrAt_ns _ _
  · split at h
    · cases h
    · cases h; trivial

theorem hex4_ns {bad : Bool} {l : List Char} {pos : Nat} {e : PErr} (h : hex4 bad l pos = .error e) :
    NotSurr e := by
  unfold hex4 at h
  split at h
  · rename_i h1; cases h; exact hexDigitAt_ns h1
  · split at h
    · rename_i h1; cases h; exact hexDigitAt_ns h1
    · split at h
      · rename_i h1; cases h; exact hexDigitAt_ns h1
      · split at h
        · rename_i h1; cases h; exact hexDigitAt_ns h1
        · cases h

/-- the pending high surrogate was written by the escape that ends where the scanner stands -/
def HighAt (l₀ : List Char) (p₀ pos : Nat) (high : Option (Nat × Nat)) : Prop :=
  ∀ ph h, high = some (ph, h) → isHigh h = true ∧ EscAt l₀ p₀ ph pos h

theorem HighAt.none (l₀ : List Char) (p₀ pos : Nat) : HighAt l₀ p₀ pos none := by
  intro ph h hh; cases hh

def StepIn (l₀ : List Char) (p₀ : Nat) : StrStep → Prop
  | .err e => ErrIn l₀ p₀ e
  | .more _ hi _ p => HighAt l₀ p₀ p hi
  | .done _ _ _ _ => True

theorem noHigh_in {o : ParseOptions} {acc : List Char} {pe cp : Nat} {r : List Char} {pos : Nat}
    {l₀ : List Char} {p₀ : Nat} (hesc : EscAt l₀ p₀ pe pos cp) : StepIn l₀ p₀ (noHigh o acc pe cp r pos) := by
  unfold noHigh
  split
  · rename_i hh
    intro ph h e; cases e; exact ⟨hh, hesc⟩
  · split
    · exact HighAt.none _ _ _
    · split
      · exact HighAt.none _ _ _
      · exact hesc

theorem flushChar_in {o : ParseOptions} {acc : List Char} {high : Option (Nat × Nat)} {c : Char}
    {r : List Char} {pos pn : Nat} {l₀ : List Char} {p₀ : Nat} (hh : HighAt l₀ p₀ pn high) :
    StepIn l₀ p₀ (flushChar o acc high c r pos pn) := by
  unfold flushChar
  split
  · exact HighAt.none _ _ _
  · rename_i ph h
    split
    · exact HighAt.none _ _ _
    · exact (hh ph h rfl).2

/-- `pn` is the offset of the backslash, the `u` sits at `pn + 1`, the digits start at `pn + 2` -/
theorem strEscU_in {o : ParseOptions} {bad : Bool} {acc : List Char} {high : Option (Nat × Nat)}
    {r2 : List Char} {pn : Nat} {l₀ : List Char} {p₀ : Nat}
    (hh : HighAt l₀ p₀ pn high) (hadv : AdvL l₀ p₀ ('\\' :: 'u' :: r2) pn) :
    StepIn l₀ p₀ (strEscU o bad acc high r2 (pn + 1) (pn + 2)) := by
  unfold strEscU
  split
  · rename_i e h4
    exact errIn_of_notSurr (hex4_ns h4)
  · rename_i cp r3 pos3 h4
    obtain ⟨a, b, c, d, hr2, hcp⟩ := hex4_ok h4
    have hp3 : pos3 = pn + 2 + 4 := by
      obtain ⟨w, e, q⟩ := hex4_adv h4
      have e' : w ++ r3 = [a, b, c, d] ++ r3 := by rw [← e, hr2]; simp
      rw [q, List.append_cancel_right e', hexCp_sizes hcp]
    have hesc : EscAt l₀ p₀ (pn + 1) pos3 cp := by
      obtain ⟨w0, e0, q0⟩ := hadv
      refine ⟨w0, a, b, c, d, r3, by rw [e0, hr2], hcp, by omega, by omega⟩
    split
    · rename_i ph h
      obtain ⟨hhigh, hprev⟩ := hh ph h rfl
      split
      · rename_i hlow
        cases hc : ofCp (pairCp h cp) with
        | some ch => exact HighAt.none _ _ _
        | none =>
          exfalso
          have hp := @ofCp_pair_some h cp hhigh hlow
          rw [hc] at hp
          exact hp.elim (fun _ hx => by cases hx)
      · split
        · exact noHigh_in hesc
        · refine ⟨hesc, ?_, ?_⟩
          · obtain ⟨_, _, _, _, _, _, _, _, hs, he⟩ := hprev; omega
          · obtain ⟨pre, a', b', c', d', post, hl, hc', hs, he⟩ := hprev
            exact ⟨pre, a', b', c', d', post, hl, hc', by omega, by omega⟩
    · exact noHigh_in hesc

theorem strEsc_in {o : ParseOptions} {bad : Bool} {acc : List Char} {high : Option (Nat × Nat)}
    {r : List Char} {pn : Nat} {l₀ : List Char} {p₀ : Nat}
    (hh : HighAt l₀ p₀ pn high) (hadv : AdvL l₀ p₀ ('\\' :: r) pn) :
    StepIn l₀ p₀ (strEsc o bad acc high r (pn + ('\\' : Char).utf8Size) pn) := by
  unfold strEsc
  split
  · exact errIn_of_notSurr (eofErrAt_ns _ _)
  · rename_i e r2
    split
    · rename_i hu
      subst hu
      have h1 : ('\\' : Char).utf8Size = 1 := by decide
      have h2 : ('u' : Char).utf8Size = 1 := by decide
      rw [h1, h2]
      exact strEscU_in hh hadv
    · split
      · exact flushChar_in hh
      · trivial

theorem strStep_in {o : ParseOptions} {bad : Bool} {acc : List Char} {high : Option (Nat × Nat)}
    {l : List Char} {pos : Nat} {l₀ : List Char} {p₀ : Nat}
    (hh : HighAt l₀ p₀ pos high) (hadv : AdvL l₀ p₀ l pos) :
    StepIn l₀ p₀ (strStep o bad acc high l pos) := by
  unfold strStep
  split
  · exact errIn_of_notSurr (eofErrAt_ns _ _)
  · rename_i c r
    split
    · split
      · trivial
      · rename_i ph h
        split
        · trivial
        · exact (hh ph h rfl).2
    · split
      · rename_i hb
        subst hb
        exact strEsc_in hh hadv
      · split
        · trivial
        · exact flushChar_in hh

theorem strLoopAux_in {o : ParseOptions} {bad : Bool} {l₀ : List Char} {p₀ : Nat} (fuel : List Char) :
    ∀ {acc : List Char} {high : Option (Nat × Nat)} {l : List Char} {pos : Nat} {e : PErr},
      HighAt l₀ p₀ pos high → AdvL l₀ p₀ l pos →
      strLoopAux o bad fuel acc high l pos = .error e → ErrIn l₀ p₀ e := by
  induction fuel with
  | nil =>
    intro acc high l pos e hh hadv h
    rw [strLoopAux] at h
    have hs := strStep_in (o := o) (bad := bad) (acc := acc) hh hadv
    split at h
    · cases h
    · rename_i e' he; cases h; rw [he] at hs; exact hs
    · cases h; trivial
  | cons c fuel ih =>
    intro acc high l pos e hh hadv h
    rw [strLoopAux] at h
    have hs := strStep_in (o := o) (bad := bad) (acc := acc) hh hadv
    split at h
    · cases h
    · rename_i e' he; cases h; rw [he] at hs; exact hs
    · rename_i he
      rw [he] at hs
      exact ih hs (hadv.trans (strStep_more_adv he)) h

theorem lexString_in {o : ParseOptions} {s : PS} {e : PErr} (h : lexString o s = .error e) : ErrInS s e := by
  unfold lexString at h
  simp only [PS.beginFragment_fst, PS.beginFragment_snd] at h
  split at h
  · cases h
    unfold PS.eofErr; split <;> trivial
  · rename_i d r hr
    simp only [beginFragment_rest] at hr
    split at h
    · split at h
      · rename_i e' h1
        cases h
        exact strLoopAux_in (l₀ := s.rest) (p₀ := s.pos) r (HighAt.none _ _ _)
          (by rw [hr]; exact AdvL.cons d r s.pos) h1
      · split at h
        · rename_i h2; cases h; rw [endFragment_err h2]; trivial
        · cases h
    · cases h; trivial

/-! ## the other lexical functions never raise a surrogate error -/

theorem eofErr_ns (s : PS) : NotSurr s.eofErr := by unfold PS.eofErr; split <;> trivial

theorem skipWs_ns {s : PS} {e : PErr} (h : skipWs s = .error e) : NotSurr e := by
  unfold skipWs at h
  simp only at h
  split at h
  · cases h; trivial
  · cases h

theorem expectChar_ns {c : Char} {s : PS} {e : PErr} (h : expectChar c s = .error e) : NotSurr e := by
  unfold expectChar at h
  split at h
  · cases h; exact eofErr_ns s
  · split at h
    · cases h
    · cases h; trivial

theorem expectChars_ns {cs : List Char} {s : PS} {e : PErr} (h : expectChars cs s = .error e) : NotSurr e := by
  induction cs generalizing s with
  | nil => simp [expectChars] at h
  | cons c cs ih =>
    simp only [expectChars] at h
    split at h
    · rename_i e' h1; cases h; exact expectChar_ns h1
    · exact ih h

theorem lexNull_ns {s : PS} {e : PErr} (h : lexNull s = .error e) : NotSurr e := by
  unfold lexNull at h
  simp only [PS.beginFragment_fst, PS.beginFragment_snd] at h
  split at h
  · rename_i e' h1; cases h; exact expectChars_ns h1
  · rw [endFragment_err h]; trivial

theorem lexBool_ns {s : PS} {e : PErr} (h : lexBool s = .error e) : NotSurr e := by
  unfold lexBool at h
  simp only [PS.beginFragment_fst, PS.beginFragment_snd] at h
  split at h
  · cases h; exact eofErr_ns _
  · split at h
    · split at h
      · rename_i e' h1; cases h; exact expectChars_ns h1
      · split at h
        · rename_i h2; cases h; rw [endFragment_err h2]; trivial
        · cases h
    · split at h
      · split at h
        · rename_i e' h1; cases h; exact expectChars_ns h1
        · split at h
          · rename_i h2; cases h; rw [endFragment_err h2]; trivial
          · cases h
      · cases h; trivial

theorem numLoop_ns {ctx : Ctx} {st : NumState} {buf l : List Char} {pos : Nat} {e : PErr}
    (h : numLoop ctx st buf l pos = .error e) : NotSurr e := by
  induction l generalizing st buf pos with
  | nil => simp [numLoop] at h
  | cons c r ih =>
    simp only [numLoop] at h
    split at h
    · exact ih h
    · cases h
    · cases h; trivial

theorem lexNumber_ns {ctx : Ctx} {s : PS} {e : PErr} (h : lexNumber ctx s = .error e) : NotSurr e := by
  unfold lexNumber at h
  simp only [PS.beginFragment_fst, PS.beginFragment_snd] at h
  split at h
  · rename_i e' h1; cases h; exact numLoop_ns h1
  · split at h
    · cases h; trivial
    · split at h
      · split at h
        · rename_i h2; cases h; rw [endFragment_err h2]; trivial
        · cases h
      · cases h; trivial

theorem startArray_ns {s : PS} {e : PErr} (h : startArray s = .error e) : NotSurr e := by
  unfold startArray at h
  simp only [PS.beginFragment_fst, PS.beginFragment_snd] at h
  split at h
  · rename_i e' h1; cases h; exact expectChar_ns h1
  · split at h
    · rename_i e' h2; cases h; exact skipWs_ns h2
    · split at h
      · split at h
        · split at h
          · rename_i h3; cases h; rw [endFragment_err h3]; trivial
          · cases h
        · cases h
      · cases h

theorem contArray_ns {i : Nat} {s : PS} {e : PErr} (h : contArray i s = .error e) : NotSurr e := by
  unfold contArray at h
  split at h
  · rename_i e' h0; cases h; exact skipWs_ns h0
  · split at h
    · cases h; exact eofErr_ns _
    · split at h
      · cases h
      · split at h
        · split at h
          · rename_i h1; cases h; rw [endFragment_err h1]; trivial
          · cases h
        · cases h; trivial

/-! ## composites -/

theorem lexKeyColon_in {o : ParseOptions} {s : PS} {e : PErr} (h : lexKeyColon o s = .error e) :
    ErrInS s e := by
  unfold lexKeyColon at h
  simp only [PS.beginFragment_fst, PS.beginFragment_snd] at h
  split at h
  · rename_i e' h1; cases h; exact (lexString_in h1).lift (adv_begin s)
  · split at h
    · rename_i e' h2; cases h; exact errIn_of_notSurr (skipWs_ns h2)
    · split at h
      · rename_i e' h3; cases h; exact errIn_of_notSurr (expectChar_ns h3)
      · cases h

theorem startObjectKey_in {o : ParseOptions} {i : Nat} {s : PS} {e : PErr}
    (h : startObjectKey o i s = .error e) : ErrInS s e := by
  unfold startObjectKey at h
  split at h
  · rename_i e' h1; cases h; exact lexKeyColon_in h1
  · cases h

theorem startObject_in {o : ParseOptions} {s : PS} {e : PErr} (h : startObject o s = .error e) :
    ErrInS s e := by
  unfold startObject at h
  simp only [PS.beginFragment_fst, PS.beginFragment_snd] at h
  split at h
  · rename_i e' h1; cases h; exact errIn_of_notSurr (expectChar_ns h1)
  · rename_i s1 h1
    have a1 := (adv_begin s).trans (expectChar_adv h1)
    split at h
    · rename_i e' h2; cases h; exact errIn_of_notSurr (skipWs_ns h2)
    · rename_i s2 h2
      have a2 := a1.trans (skipWs_adv h2)
      split at h
      · split at h
        · split at h
          · rename_i h3; cases h; rw [endFragment_err h3]; trivial
          · cases h
        · exact (startObjectKey_in h).lift a2
      · exact (startObjectKey_in h).lift a2

theorem parseFragment_in {o : ParseOptions} {ctx : Ctx} {s : PS} {e : PErr}
    (h : parseFragment o ctx s = .error e) : ErrInS s e := by
  unfold parseFragment at h
  split at h
  · rename_i e' h0; cases h; exact errIn_of_notSurr (skipWs_ns h0)
  · rename_i s0 h0
    have a0 := skipWs_adv h0
    split at h
    · cases h; exact errIn_of_notSurr (eofErr_ns _)
    · rename_i c tl hr
      repeat' (split at h)
      all_goals (first | (cases h; done) | skip)
      · rename_i h1; cases h; exact errIn_of_notSurr (lexNull_ns h1)
      · rename_i h1; cases h; exact errIn_of_notSurr (lexBool_ns h1)
      · rename_i h1; cases h; exact errIn_of_notSurr (lexNumber_ns h1)
      · rename_i h1; cases h; exact (lexString_in h1).lift a0
      · exact errIn_of_notSurr (startArray_ns h)
      · exact (startObject_in h).lift a0
      · cases h; trivial

theorem contObject_in {o : ParseOptions} {i : Nat} {s : PS} {e : PErr}
    (h : contObject o i s = .error e) : ErrInS s e := by
  unfold contObject at h
  split at h
  · rename_i e' h0; cases h; exact errIn_of_notSurr (skipWs_ns h0)
  · rename_i s0 h0
    have a0 := skipWs_adv h0
    split at h
    · cases h; exact errIn_of_notSurr (eofErr_ns _)
    · rename_i d r hr
      have a1 := a0.trans (adv_adv hr)
      split at h
      · split at h
        · rename_i e' h1; cases h; exact errIn_of_notSurr (skipWs_ns h1)
        · rename_i s1 h1
          split at h
          · rename_i e' h2; cases h; exact (lexKeyColon_in h2).lift (a1.trans (skipWs_adv h1))
          · cases h
      · split at h
        · split at h
          · rename_i h1; cases h; rw [endFragment_err h1]; trivial
          · cases h
        · cases h; trivial

/-- **Every surrogate error of the machine blames exactly the escape(s) at fault.** -/
theorem run_in {o : ParseOptions} {stack : List StackItem} {value : Option JValue} {s : PS}
    {e : PErr} (h : run o stack value s = .error e) : ErrInS s e := by
  fun_induction run o stack value s
  case case1 hws => cases h; exact errIn_of_notSurr (skipWs_ns hws)
  case case2 => cases h; trivial
  case case3 => cases h
  case case4 h1 => cases h; exact parseFragment_in h1
  case case5 h1 ih => exact (ih h).lift (parseFragment_adv h1)
  case case6 h1 ih => exact (ih h).lift (parseFragment_adv h1)
  case case7 h1 ih => exact (ih h).lift (parseFragment_adv h1)
  case case8 h1 => cases h; exact errIn_of_notSurr (contArray_ns h1)
  case case9 h1 ih => exact (ih h).lift (contArray_adv h1)
  case case10 h1 ih => exact (ih h).lift (contArray_adv h1)
  case case11 ih => exact ih h
  case case12 h1 => cases h; exact parseFragment_in h1
  case case13 h1 ih => exact (ih h).lift (parseFragment_adv h1)
  case case14 h1 ih => exact (ih h).lift (parseFragment_adv h1)
  case case15 h1 ih => exact (ih h).lift (parseFragment_adv h1)
  case case16 h1 => cases h; exact contObject_in h1
  case case17 h1 ih => exact (ih h).lift (contObject_adv h1)
  case case18 h1 ih => exact (ih h).lift (contObject_adv h1)
  case case19 h1 => cases h; rw [endFragment_err h1]; trivial
  case case20 h1 ih => exact (ih h).lift (adv_end h1)
  case case21 h1 => cases h; exact parseFragment_in h1
  case case22 =>
    cases h
    have hp := endFragment_err ‹PS.endFragment _ _ = Except.error _›
    rw [hp]; trivial
  case case23 ih =>
    exact (ih h).lift ((parseFragment_adv ‹parseFragment _ _ _ = _›).trans (adv_end ‹PS.endFragment _ _ = _›))
  case case24 h1 ih => exact (ih h).lift (parseFragment_adv h1)
  case case25 h1 ih => exact (ih h).lift (parseFragment_adv h1)

end JsonVerif
