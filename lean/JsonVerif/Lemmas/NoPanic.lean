import JsonVerif.Lemmas.Run
/-!
# The `unwrap()` of `end_fragment` never fails (C03: no panic)

Invariant: every code-map index held by the machine (container indices on the stack, pending entry
indices) is below the current size of the code map; the lexical functions only ever close indices
they reserved themselves or that they were handed by the machine.
-/
namespace JsonVerif

theorem endFragment_ex {s : PS} {i : Nat} (h : i < s.cm.size) : ∃ s', s.endFragment i = .ok s' := by
  unfold PS.endFragment
  have : s.cm[i]? = some s.cm[i] := Array.getElem?_eq_getElem h
  simp [this]

theorem endFragment_np {s : PS} {i : Nat} (h : i < s.cm.size) : s.endFragment i ≠ .error .panic := by
  obtain ⟨s', e⟩ := endFragment_ex h; simp [e]

theorem begin_lt (s : PS) : s.cm.size < s.reserve.cm.size := by
  simp [PS.reserve]

theorem err_ne {α : Type} {e : PErr} (h : e ≠ .panic) : (Except.error e : Except PErr α) ≠ .error .panic := by
  intro hh; injection hh with hh; exact h hh
theorem err_ne' {e : PErr} (h : e ≠ .panic) : StrStep.err e ≠ .err .panic := by
  intro hh; injection hh with hh; exact h hh

theorem skipWs_np (s : PS) : skipWs s ≠ .error .panic := by
  unfold skipWs; simp only; split <;> simp

theorem expectChar_np (c : Char) (s : PS) : expectChar c s ≠ .error .panic := by
  unfold expectChar
  split
  · simp [PS.eofErr]; split <;> simp
  · split <;> simp

theorem expectChars_np (cs : List Char) (s : PS) : expectChars cs s ≠ .error .panic := by
  induction cs generalizing s with
  | nil => simp [expectChars]
  | cons c cs ih =>
    simp only [expectChars]
    split
    · rename_i e h; intro hh; cases hh; exact expectChar_np _ _ h
    · exact ih _

theorem eofErr_np (s : PS) : s.eofErr ≠ .panic := by unfold PS.eofErr; split <;> simp
theorem eofErrAt_np (b : Bool) (p : Nat) : eofErrAt b p ≠ .panic := by unfold eofErrAt; split <;> simp

theorem lexNull_np (s : PS) : lexNull s ≠ .error .panic := by
  unfold lexNull
  simp only [PS.beginFragment_fst, PS.beginFragment_snd]
  split
  · rename_i e h; intro hh; cases hh; exact expectChars_np _ _ h
  · rename_i s1 h1
    have := (expectChars_adv h1).2.2
    exact endFragment_np (Nat.lt_of_lt_of_le (begin_lt s) this)

theorem lexBool_np (s : PS) : lexBool s ≠ .error .panic := by
  unfold lexBool
  simp only [PS.beginFragment_fst, PS.beginFragment_snd]
  split
  · exact err_ne (eofErr_np _)
  · split
    · split
      · rename_i e h; intro hh; cases hh; exact expectChars_np _ _ h
      · rename_i s1 h1
        have := (expectChars_adv h1).2.2
        have := endFragment_ex (Nat.lt_of_lt_of_le (begin_lt s) this)
        obtain ⟨s2, e2⟩ := this
        simp [e2]
    · split
      · split
        · rename_i e h; intro hh; cases hh; exact expectChars_np _ _ h
        · rename_i s1 h1
          have := (expectChars_adv h1).2.2
          have := endFragment_ex (Nat.lt_of_lt_of_le (begin_lt s) this)
          obtain ⟨s2, e2⟩ := this
          simp [e2]
      · simp

theorem numLoop_np {ctx : Ctx} {st : NumState} {buf l : List Char} {pos : Nat} :
    numLoop ctx st buf l pos ≠ .error .panic := by
  induction l generalizing st buf pos with
  | nil => simp [numLoop]
  | cons c r ih =>
    simp only [numLoop]
    split
    · exact ih
    · simp
    · simp

theorem lexNumber_np (ctx : Ctx) (s : PS) : lexNumber ctx s ≠ .error .panic := by
  unfold lexNumber
  simp only [PS.beginFragment_fst, PS.beginFragment_snd]
  split
  · rename_i e h; intro hh; cases hh; exact numLoop_np h
  · split
    · simp
    · split
      · split
        · rename_i e h; intro hh; cases hh
          exact endFragment_np (by simp [PS.reserve]) h
        · simp
      · simp

theorem hexDigitAt_np {bad : Bool} {l : List Char} {pos : Nat} : hexDigitAt bad l pos ≠ .error .panic := by
  unfold hexDigitAt
  split
  · exact err_ne (eofErrAt_np _ _)
  · split <;> simp

theorem hex4_np {bad : Bool} {l : List Char} {pos : Nat} : hex4 bad l pos ≠ .error .panic := by
  unfold hex4
  repeat' split
  all_goals (first | (intro hh; cases hh; exact hexDigitAt_np (by assumption)) | simp)

theorem strStep_np {o : ParseOptions} {bad : Bool} {acc : List Char} {high : Option (Nat × Nat)}
    {l : List Char} {pos : Nat} : strStep o bad acc high l pos ≠ .err .panic := by
  unfold strStep
  split
  · exact err_ne' (eofErrAt_np _ _)
  · split
    · repeat' split
      all_goals simp
    · split
      · unfold strEsc
        split
        · exact err_ne' (eofErrAt_np _ _)
        · split
          · unfold strEscU
            split
            · rename_i e h; intro hh; cases hh; exact hex4_np h
            · unfold noHigh
              repeat' split
              all_goals simp
          · unfold flushChar
            repeat' split
            all_goals simp
      · unfold flushChar
        repeat' split
        all_goals simp

theorem strLoopAux_np {o : ParseOptions} {bad : Bool} (fuel : List Char) :
    ∀ {acc : List Char} {high : Option (Nat × Nat)} {l : List Char} {pos : Nat},
      l.length ≤ fuel.length → strLoopAux o bad fuel acc high l pos ≠ .error .panic := by
  induction fuel with
  | nil =>
    intro acc high l pos hl
    rw [strLoopAux]
    split
    · simp
    · rename_i e hs; intro hh; cases hh; exact strStep_np hs
    · rename_i hs; have := strStep_len hs; simp at hl; subst hl; simp at this
  | cons c fuel ih =>
    intro acc high l pos hl
    rw [strLoopAux]
    split
    · simp
    · rename_i e hs; intro hh; cases hh; exact strStep_np hs
    · rename_i hs
      have h1 := strStep_len hs
      exact ih (by simp at hl; omega)

theorem strLoop_np {o : ParseOptions} {bad : Bool}
    {acc : List Char} {high : Option (Nat × Nat)} {l : List Char} {pos : Nat} :
    strLoop o bad acc high l pos ≠ .error .panic :=
  strLoopAux_np _ (Nat.le_refl _)

theorem lexString_np (o : ParseOptions) (s : PS) : lexString o s ≠ .error .panic := by
  unfold lexString
  simp only [PS.beginFragment_fst, PS.beginFragment_snd]
  split
  · exact err_ne (eofErr_np _)
  · split
    · split
      · rename_i e h; intro hh; cases hh; exact strLoop_np h
      · split
        · rename_i e h; intro hh; cases hh
          exact endFragment_np (by simp [PS.reserve]) h
        · simp
    · simp

theorem lexKeyColon_np (o : ParseOptions) (s : PS) : lexKeyColon o s ≠ .error .panic := by
  unfold lexKeyColon
  simp only [PS.beginFragment_fst, PS.beginFragment_snd]
  split
  · rename_i e h; intro hh; cases hh; exact lexString_np _ _ h
  · split
    · rename_i e h; intro hh; cases hh; exact skipWs_np _ h
    · split
      · rename_i e h; intro hh; cases hh; exact expectChar_np _ _ h
      · simp

/-- indices carried by a fragment are valid for the state it is returned with -/
def Fragment.IdxOk (f : Fragment) (s : PS) : Prop :=
  match f with
  | .value _ => True
  | .beginArray i => i < s.cm.size
  | .beginObject i _ e => i < s.cm.size ∧ e < s.cm.size

theorem lexKeyColon_idx {o : ParseOptions} {s : PS} {k : List Char} {e : Nat} {s' : PS}
    (h : lexKeyColon o s = .ok (k, e, s')) : e < s'.cm.size := by
  have ha := lexKeyColon_adv h
  unfold lexKeyColon at h
  simp only [PS.beginFragment_fst, PS.beginFragment_snd] at h
  split at h
  · cases h
  · rename_i key s1 hv
    split at h
    · cases h
    · rename_i s2 h2
      split at h
      · cases h
      · rename_i s3 h3
        cases h
        have := ((lexString_adv hv).trans ((skipWs_adv h2).trans (expectChar_adv h3))).2.2
        exact Nat.lt_of_lt_of_le (begin_lt s) this

theorem startArray_np (s : PS) : startArray s ≠ .error .panic := by
  unfold startArray
  simp only [PS.beginFragment_fst, PS.beginFragment_snd]
  split
  · rename_i e h; intro hh; cases hh; exact expectChar_np _ _ h
  · rename_i s1 h1
    split
    · rename_i e h; intro hh; cases hh; exact skipWs_np _ h
    · rename_i s2 h2
      have hs := ((expectChar_adv h1).trans (skipWs_adv h2)).2.2
      split
      · split
        · have := endFragment_ex (s := s2.adv ‹Char› ‹List Char›) (i := s.cm.size)
            (by simp [PS.adv]; exact Nat.lt_of_lt_of_le (begin_lt s) hs)
          obtain ⟨s3, e3⟩ := this
          simp [e3]
        · simp
      · simp

theorem startArray_idx {s : PS} {f : Fragment} {s' : PS} (h : startArray s = .ok (f, s')) :
    f.IdxOk s' := by
  unfold startArray at h
  simp only [PS.beginFragment_fst, PS.beginFragment_snd] at h
  split at h
  · cases h
  · rename_i s1 h1
    split at h
    · cases h
    · rename_i s2 h2
      have hs := ((expectChar_adv h1).trans (skipWs_adv h2)).2.2
      split at h
      · split at h
        · split at h
          · cases h
          · cases h; trivial
        · cases h; exact Nat.lt_of_lt_of_le (begin_lt s) hs
      · cases h; exact Nat.lt_of_lt_of_le (begin_lt s) hs

theorem startObjectKey_np (o : ParseOptions) (i : Nat) (s : PS) :
    startObjectKey o i s ≠ .error .panic := by
  unfold startObjectKey
  split
  · rename_i e h; intro hh; cases hh; exact lexKeyColon_np _ _ h
  · simp

theorem startObjectKey_idx {o : ParseOptions} {i : Nat} {s : PS} {f : Fragment} {s' : PS}
    (hi : i < s.cm.size) (h : startObjectKey o i s = .ok (f, s')) : f.IdxOk s' := by
  unfold startObjectKey at h
  split at h
  · cases h
  · rename_i k e s3 h3
    cases h
    exact ⟨Nat.lt_of_lt_of_le hi (lexKeyColon_adv h3).2.2, lexKeyColon_idx h3⟩

theorem startObject_np (o : ParseOptions) (s : PS) : startObject o s ≠ .error .panic := by
  unfold startObject
  simp only [PS.beginFragment_fst, PS.beginFragment_snd]
  split
  · rename_i e h; intro hh; cases hh; exact expectChar_np _ _ h
  · rename_i s1 h1
    split
    · rename_i e h; intro hh; cases hh; exact skipWs_np _ h
    · rename_i s2 h2
      have hs := ((expectChar_adv h1).trans (skipWs_adv h2)).2.2
      split
      · split
        · have := endFragment_ex (s := s2.adv ‹Char› ‹List Char›) (i := s.cm.size)
            (by simp [PS.adv]; exact Nat.lt_of_lt_of_le (begin_lt s) hs)
          obtain ⟨s3, e3⟩ := this
          simp [e3]
        · exact startObjectKey_np _ _ _
      · exact startObjectKey_np _ _ _

theorem startObject_idx {o : ParseOptions} {s : PS} {f : Fragment} {s' : PS}
    (h : startObject o s = .ok (f, s')) : f.IdxOk s' := by
  unfold startObject at h
  simp only [PS.beginFragment_fst, PS.beginFragment_snd] at h
  split at h
  · cases h
  · rename_i s1 h1
    split at h
    · cases h
    · rename_i s2 h2
      have hs := ((expectChar_adv h1).trans (skipWs_adv h2)).2.2
      split at h
      · split at h
        · split at h
          · cases h
          · cases h; trivial
        · exact startObjectKey_idx (Nat.lt_of_lt_of_le (begin_lt s) hs) h
      · exact startObjectKey_idx (Nat.lt_of_lt_of_le (begin_lt s) hs) h

theorem parseFragment_np (o : ParseOptions) (ctx : Ctx) (s : PS) :
    parseFragment o ctx s ≠ .error .panic := by
  unfold parseFragment
  split
  · rename_i e h; intro hh; cases hh; exact skipWs_np _ h
  · split
    · exact err_ne (eofErr_np _)
    · repeat' split
      all_goals (first | (rename_i e h; intro hh; cases hh; first | exact lexNull_np _ h | exact lexBool_np _ h | exact lexNumber_np _ _ h | exact lexString_np _ _ h) | exact startArray_np _ | exact startObject_np _ _ | simp)

theorem parseFragment_idx {o : ParseOptions} {ctx : Ctx} {s : PS} {f : Fragment} {s' : PS}
    (h : parseFragment o ctx s = .ok (f, s')) : f.IdxOk s' := by
  unfold parseFragment at h
  split at h
  · cases h
  · split at h
    · cases h
    · repeat' (split at h)
      all_goals (first | (cases h; done) | (cases h; trivial) | exact startArray_idx h | exact startObject_idx h)

theorem contArray_np {i : Nat} {s : PS} (hi : i < s.cm.size) : contArray i s ≠ .error .panic := by
  unfold contArray
  split
  · rename_i e h; intro hh; cases hh; exact skipWs_np _ h
  · rename_i s0 h0
    have hs := (skipWs_adv h0).2.2
    split
    · exact err_ne (eofErr_np _)
    · split
      · simp
      · split
        · have := endFragment_ex (s := s0.adv ‹Char› ‹List Char›) (i := i)
            (by simp [PS.adv]; omega)
          obtain ⟨s3, e3⟩ := this
          simp [e3]
        · simp

theorem contObject_np {o : ParseOptions} {i : Nat} {s : PS} (hi : i < s.cm.size) :
    contObject o i s ≠ .error .panic := by
  unfold contObject
  split
  · rename_i e h; intro hh; cases hh; exact skipWs_np _ h
  · rename_i s0 h0
    have hs := (skipWs_adv h0).2.2
    split
    · exact err_ne (eofErr_np _)
    · split
      · split
        · rename_i e h; intro hh; cases hh; exact skipWs_np _ h
        · split
          · rename_i e h; intro hh; cases hh; exact lexKeyColon_np _ _ h
          · simp
      · split
        · have := endFragment_ex (s := s0.adv ‹Char› ‹List Char›) (i := i)
            (by simp [PS.adv]; omega)
          obtain ⟨s3, e3⟩ := this
          simp [e3]
        · simp

theorem contObject_idx {o : ParseOptions} {i : Nat} {s : PS} {k : List Char} {e : Nat} {s' : PS}
    (h : contObject o i s = .ok (.entry k e, s')) : e < s'.cm.size := by
  unfold contObject at h
  split at h
  · cases h
  · split at h
    · cases h
    · split at h
      · split at h
        · cases h
        · split at h
          · cases h
          · rename_i hk; cases h; exact lexKeyColon_idx hk
      · split at h
        · split at h <;> cases h
        · cases h

/-- every index held on the stack is below `n` -/
def StackOk (n : Nat) : List StackItem → Prop
  | [] => True
  | .array _ i :: k => i < n ∧ StackOk n k
  | .arrayItem _ i :: k => i < n ∧ StackOk n k
  | .object _ i :: k => i < n ∧ StackOk n k
  | .objectEntry _ i _ e :: k => i < n ∧ e < n ∧ StackOk n k

theorem StackOk.mono {n m : Nat} (h : n ≤ m) : ∀ {k : List StackItem}, StackOk n k → StackOk m k
  | [], _ => trivial
  | .array _ _ :: _, ⟨a, b⟩ => ⟨Nat.lt_of_lt_of_le a h, StackOk.mono h b⟩
  | .arrayItem _ _ :: _, ⟨a, b⟩ => ⟨Nat.lt_of_lt_of_le a h, StackOk.mono h b⟩
  | .object _ _ :: _, ⟨a, b⟩ => ⟨Nat.lt_of_lt_of_le a h, StackOk.mono h b⟩
  | .objectEntry _ _ _ _ :: _, ⟨a, b, c⟩ =>
    ⟨Nat.lt_of_lt_of_le a h, Nat.lt_of_lt_of_le b h, StackOk.mono h c⟩

theorem run_np {o : ParseOptions} {stack : List StackItem} {value : Option JValue} {s : PS}
    (hk : StackOk s.cm.size stack) : run o stack value s ≠ .error .panic := by
  fun_induction run o stack value s
  case case1 h => intro hh; cases hh; exact skipWs_np _ h
  case case2 => simp
  case case3 => simp
  case case4 h => intro hh; cases hh; exact parseFragment_np _ _ _ h
  case case5 h ih => exact ih trivial
  case case6 h ih => exact ih ⟨parseFragment_idx h, trivial⟩
  case case7 h ih => have := parseFragment_idx h; exact ih ⟨this.1, this.2, trivial⟩
  case case8 h => intro hh; cases hh; exact contArray_np hk.1 h
  case case9 h ih => exact ih (StackOk.mono (k := _ :: _) (contArray_adv h).2.2 hk)
  case case10 h ih => exact ih (StackOk.mono (contArray_adv h).2.2 hk.2)
  case case11 ih => exact ih hk
  case case12 h => intro hh; cases hh; exact parseFragment_np _ _ _ h
  case case13 h ih => exact ih (StackOk.mono (k := _ :: _) (parseFragment_adv h).2.2 hk)
  case case14 h ih =>
    exact ih ⟨parseFragment_idx h, StackOk.mono (k := _ :: _) (parseFragment_adv h).2.2 hk⟩
  case case15 h ih =>
    have := parseFragment_idx h
    exact ih ⟨this.1, this.2, StackOk.mono (k := _ :: _) (parseFragment_adv h).2.2 hk⟩
  case case16 h => intro hh; cases hh; exact contObject_np hk.1 h
  case case17 h ih =>
    have hm := StackOk.mono (k := _ :: _) (contObject_adv h).2.2 hk
    exact ih ⟨hm.1, contObject_idx h, hm.2⟩
  case case18 h ih => exact ih (StackOk.mono (contObject_adv h).2.2 hk.2)
  case case19 h => intro hh; cases hh; exact endFragment_np hk.2.1 h
  case case20 h ih =>
    have hm := StackOk.mono (k := _ :: _) (adv_end h).2.2 hk
    exact ih ⟨hm.1, hm.2.2⟩
  case case21 h => intro hh; cases hh; exact parseFragment_np _ _ _ h
  case case22 =>
    have h1 := ‹parseFragment _ _ _ = _›
    have h2 := ‹PS.endFragment _ _ = _›
    intro hh; cases hh
    exact endFragment_np (Nat.lt_of_lt_of_le hk.2.1 (parseFragment_adv h1).2.2) h2
  case case23 ih =>
    have h1 := ‹parseFragment _ _ _ = _›
    have h2 := ‹PS.endFragment _ _ = _›
    have hm := StackOk.mono (k := _ :: _) ((parseFragment_adv h1).trans (adv_end h2)).2.2 hk
    exact ih ⟨hm.1, hm.2.2⟩
  case case24 h ih =>
    exact ih ⟨parseFragment_idx h, StackOk.mono (k := _ :: _) (parseFragment_adv h).2.2 hk⟩
  case case25 h ih =>
    have := parseFragment_idx h
    exact ih ⟨this.1, this.2, StackOk.mono (k := _ :: _) (parseFragment_adv h).2.2 hk⟩

end JsonVerif
