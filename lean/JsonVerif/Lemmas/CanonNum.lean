import JsonVerif.Lemmas.CanonThm
import JsonVerif.Lemmas.Serde
import JsonVerif.Lemmas.PermEqLaws
/-!
# Canonicalization does not see number spelling (C10)

`canon nc` of a value whose numbers were already sent through `nc` is `canon nc` of the value,
when `nc` is idempotent. Hence two values that are equal up to member order once every number is
replaced by its canonical spelling have the same canonical form.
-/
namespace JsonVerif

mutual
theorem canon_mapNumbers (nc : List Char → List Char) (hnc : ∀ n, nc (nc n) = nc n) :
    ∀ v : JValue, canon nc (mapNumbers nc v) = canon nc v
  | .null => rfl
  | .bool _ => rfl
  | .string _ => rfl
  | .number n => by simp [mapNumbers, canon, hnc]
  | .array xs => by simp only [mapNumbers, canon]; rw [canonL_mapNumbers nc hnc xs]
  | .object es => by simp only [mapNumbers, canon]; rw [canonM_mapNumbers nc hnc es]
theorem canonL_mapNumbers (nc : List Char → List Char) (hnc : ∀ n, nc (nc n) = nc n) :
    ∀ xs : List JValue, canonL nc (mapNumbersL nc xs) = canonL nc xs
  | [] => rfl
  | x :: xs => by
    simp only [mapNumbersL, canonL]; rw [canon_mapNumbers nc hnc x, canonL_mapNumbers nc hnc xs]
theorem canonM_mapNumbers (nc : List Char → List Char) (hnc : ∀ n, nc (nc n) = nc n) :
    ∀ es : List (List Char × JValue), canonM nc (mapNumbersM nc es) = canonM nc es
  | [] => rfl
  | (k, x) :: es => by
    simp only [mapNumbersM, canonM]; rw [canon_mapNumbers nc hnc x, canonM_mapNumbers nc hnc es]
end

/-- equal up to member order at every depth and up to number spellings that `nc` identifies -/
def SameUpToOrderAndNumbers (nc : List Char → List Char) (a b : JValue) : Prop :=
  PermEq (mapNumbers nc a) (mapNumbers nc b)

theorem canon_blind (nc : List Char → List Char) (hnc : ∀ n, nc (nc n) = nc n) {a b : JValue}
    (h : SameUpToOrderAndNumbers nc a b) : canon nc a = canon nc b := by
  rw [← canon_mapNumbers nc hnc a, ← canon_mapNumbers nc hnc b]
  exact canon_permEq nc h

mutual
/-- the canonical value is the value with its numbers respelled, up to the order of members -/
theorem canon_permEq_mapNumbers (nc : List Char → List Char) :
    ∀ v : JValue, PermEq (mapNumbers nc v) (canon nc v)
  | .null => .null
  | .bool b => .bool b
  | .string s => .string s
  | .number n => .number _
  | .array xs => by simp only [mapNumbers, canon]; exact .array (canonL_permEq_mapNumbers nc xs)
  | .object es => by
    simp only [mapNumbers, canon]
    exact .object (PermEqM.ofPW (canonM_pw_mapNumbers nc es) (List.mergeSort_perm _ _).symm)
theorem canonL_permEq_mapNumbers (nc : List Char → List Char) :
    ∀ xs : List JValue, PermEqL (mapNumbersL nc xs) (canonL nc xs)
  | [] => .nil
  | x :: xs => by
    simp only [mapNumbersL, canonL]
    exact .cons (canon_permEq_mapNumbers nc x) (canonL_permEq_mapNumbers nc xs)
theorem canonM_pw_mapNumbers (nc : List Char → List Char) :
    ∀ es : List (List Char × JValue), PW (mapNumbersM nc es) (canonM nc es)
  | [] => .nil
  | (k, x) :: es => by
    simp only [mapNumbersM, canonM]
    exact .cons (canon_permEq_mapNumbers nc x) (canonM_pw_mapNumbers nc es)
end

/-- **Uniqueness**: a value that is the respelled input up to member order, whose numbers are in
    canonical spelling and whose members are sorted at every depth IS the canonical value. -/
theorem canon_unique (nc : List Char → List Char) (hnc : ∀ n, nc (nc n) = nc n) (v w : JValue)
    (hp : PermEq (mapNumbers nc v) w) (hs : AllSorted w) (hn : NumsFixed nc w) : w = canon nc v := by
  rw [← canon_mapNumbers nc hnc v, canon_permEq nc hp, canon_fixed nc w hs hn]

end JsonVerif
