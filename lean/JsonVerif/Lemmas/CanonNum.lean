import JsonVerif.Lemmas.CanonThm
import JsonVerif.Lemmas.Serde
/-!
# Canonicalization does not see number spelling (C10)

`canon nc` of a value whose numbers were already sent through `nc` is `canon nc` of the value,
when `nc` is idempotent. Hence two values that are equal up to member order once every number is
replaced by its canonical spelling have the same canonical form.
-/
namespace JsonVerif

mutual
theorem canon_mapNumbers (nc : List Char → List Char) (hnc : ∀ n, nc (nc n) = nc n) :
    ∀ v : JValue, canon nc (mapNumbers nc v) = canon nc v
  | .null => rfl
  | .bool _ => rfl
  | .string _ => rfl
  | .number n => by simp [mapNumbers, canon, hnc]
  | .array xs => by simp only [mapNumbers, canon]; rw [canonL_mapNumbers nc hnc xs]
  | .object es => by simp only [mapNumbers, canon]; rw [canonM_mapNumbers nc hnc es]
theorem canonL_mapNumbers (nc : List Char → List Char) (hnc : ∀ n, nc (nc n) = nc n) :
    ∀ xs : List JValue, canonL nc (mapNumbersL nc xs) = canonL nc xs
  | [] => rfl
  | x :: xs => by
    simp only [mapNumbersL, canonL]; rw [canon_mapNumbers nc hnc x, canonL_mapNumbers nc hnc xs]
theorem canonM_mapNumbers (nc : List Char → List Char) (hnc : ∀ n, nc (nc n) = nc n) :
    ∀ es : List (List Char × JValue), canonM nc (mapNumbersM nc es) = canonM nc es
  | [] => rfl
  | (k, x) :: es => by
    simp only [mapNumbersM, canonM]; rw [canon_mapNumbers nc hnc x, canonM_mapNumbers nc hnc es]
end

/-- equal up to member order at every depth and up to number spellings that `nc` identifies -/
def SameUpToOrderAndNumbers (nc : List Char → List Char) (a b : JValue) : Prop :=
  PermEq (mapNumbers nc a) (mapNumbers nc b)

theorem canon_blind (nc : List Char → List Char) (hnc : ∀ n, nc (nc n) = nc n) {a b : JValue}
    (h : SameUpToOrderAndNumbers nc a b) : canon nc a = canon nc b := by
  rw [← canon_mapNumbers nc hnc a, ← canon_mapNumbers nc hnc b]
  exact canon_permEq nc h

end JsonVerif
