import JsonVerif.Lemmas.PrintP
import JsonVerif.Model.ParseBasic
/-!
# Printing only ever adds insignificant whitespace between the value's tokens (C04)

`toks v` is the token sequence of a value (punctuation, scalar texts, string literals), exactly the
sequence `refSerialize` concatenates. `Interleave ts t` says that `t` is `ts` with JSON whitespace
(space, tab, LF, CR) inserted only *between* tokens. Every layout the printer can produce — any
option record, any indentation — is such an interleaving of the same tokens.
-/
namespace JsonVerif

mutual
def toks : JValue → List (List Char)
  | .null => [nullText]
  | .bool b => [boolText b]
  | .number n => [n]
  | .string s => [stringLiteral s]
  | .array xs => ['['] :: toksL xs 0 ++ [[']']]
  | .object es => ['{'] :: toksM es 0 ++ [['}']]
def toksL : List JValue → Nat → List (List Char)
  | [], _ => []
  | x :: xs, i => (if i > 0 then [[',']] else []) ++ toks x ++ toksL xs (i + 1)
def toksM : List (List Char × JValue) → Nat → List (List Char)
  | [], _ => []
  | (k, x) :: es, i =>
    (if i > 0 then [[',']] else []) ++ [stringLiteral k, [':']] ++ toks x ++ toksM es (i + 1)
end

def AllWs (w : List Char) : Prop := ∀ c ∈ w, isWs c = true

inductive Interleave : List (List Char) → List Char → Prop
  | nil (w : List Char) : AllWs w → Interleave [] w
  | cons (w t : List Char) (ts : List (List Char)) (rest : List Char) :
      AllWs w → Interleave ts rest → Interleave (t :: ts) (w ++ t ++ rest)

theorem AllWs.nil : AllWs [] := by intro c h; cases h
theorem AllWs.append {a b : List Char} (ha : AllWs a) (hb : AllWs b) : AllWs (a ++ b) := by
  intro c h; rcases List.mem_append.mp h with h | h
  · exact ha c h
  · exact hb c h
theorem AllWs.spaces (n : Nat) : AllWs (spaces n) := by
  intro c h; simp [JsonVerif.spaces] at h; simp [h.2, isWs]
theorem AllWs.nl : AllWs ['\n'] := by intro c h; simp at h; simp [h, isWs]
theorem AllWs.indent (o : PrintOptions) (n : Nat) : AllWs (indentBy o n) := by
  intro c h
  simp only [indentBy, List.mem_flatten, List.mem_replicate] at h
  obtain ⟨l, ⟨_, rfl⟩, hc⟩ := h
  cases hi : o.indent <;> simp [hi, Indent.unit] at hc <;> simp [hc.2, isWs]

theorem Interleave.prepend {ts : List (List Char)} {t w : List Char} (hw : AllWs w)
    (h : Interleave ts t) : Interleave ts (w ++ t) := by
  cases h with
  | nil w' hw' => exact .nil _ (hw.append hw')
  | cons w' t' ts' rest hw' hr =>
    have : w ++ (w' ++ t' ++ rest) = (w ++ w') ++ t' ++ rest := by simp
    rw [this]; exact .cons _ _ _ _ (hw.append hw') hr

theorem Interleave.append {a b : List (List Char)} {x y : List Char}
    (ha : Interleave a x) (hb : Interleave b y) : Interleave (a ++ b) (x ++ y) := by
  induction ha with
  | nil w hw => exact hb.prepend hw
  | cons w t ts rest hw _ ih =>
    have : w ++ t ++ rest ++ y = w ++ t ++ (rest ++ y) := by simp
    rw [this]; exact .cons _ _ _ _ hw ih

theorem Interleave.single (t : List Char) : Interleave [t] t := by
  have := Interleave.cons [] t [] [] AllWs.nil (.nil [] AllWs.nil)
  simpa using this

theorem Interleave.ws {w : List Char} (hw : AllWs w) : Interleave [] w := .nil w hw

/-- token followed by whitespace -/
theorem Interleave.tokWs (t : List Char) {w : List Char} (hw : AllWs w) : Interleave [t] (t ++ w) := by
  have := Interleave.cons [] t [] w AllWs.nil (.nil w hw)
  simpa using this

theorem keyText_interleave (o : PrintOptions) (k : List Char) :
    Interleave [stringLiteral k, [':']] (keyText o k) := by
  unfold keyText
  have h1 := Interleave.tokWs (stringLiteral k) (AllWs.spaces o.objectBeforeColon)
  have h2 := Interleave.tokWs [':'] (AllWs.spaces o.objectAfterColon)
  have := h1.append h2
  simpa using this

theorem arrSep_interleave (o : PrintOptions) : Interleave [[',']] (arrSep o) := by
  unfold arrSep
  have := (Interleave.ws (AllWs.spaces o.arrayBeforeComma)).append
    (Interleave.tokWs [','] (AllWs.spaces o.arrayAfterComma))
  simpa using this

theorem objSep_interleave (o : PrintOptions) : Interleave [[',']] (objSep o) := by
  unfold objSep
  have := (Interleave.ws (AllWs.spaces o.objectBeforeComma)).append
    (Interleave.tokWs [','] (AllWs.spaces o.objectAfterComma))
  simpa using this

mutual
theorem oneLine_interleave (o : PrintOptions) : ∀ v, Interleave (toks v) (oneLine o v)
  | .null => Interleave.single _
  | .bool _ => Interleave.single _
  | .number _ => Interleave.single _
  | .string _ => Interleave.single _
  | .array xs => by
    simp only [toks, oneLine]
    cases xs with
    | nil =>
      have := (Interleave.tokWs ['['] (AllWs.spaces o.arrayEmpty)).append (Interleave.single [']'])
      simpa [toksL] using this
    | cons x xs =>
      have h := oneLineL_interleave o (x :: xs) 0
      have := ((Interleave.tokWs ['['] (AllWs.spaces o.arrayBegin)).append h).append
        ((Interleave.ws (AllWs.spaces o.arrayEnd)).append (Interleave.single [']']))
      simpa using this
  | .object es => by
    simp only [toks, oneLine]
    cases es with
    | nil =>
      have := (Interleave.tokWs ['{'] (AllWs.spaces o.objectEmpty)).append (Interleave.single ['}'])
      simpa [toksM] using this
    | cons e es =>
      have h := oneLineM_interleave o (e :: es) 0
      have := ((Interleave.tokWs ['{'] (AllWs.spaces o.objectBegin)).append h).append
        ((Interleave.ws (AllWs.spaces o.objectEnd)).append (Interleave.single ['}']))
      simpa using this
theorem oneLineL_interleave (o : PrintOptions) : ∀ xs i, Interleave (toksL xs i) (oneLineL o xs i)
  | [], _ => Interleave.ws AllWs.nil
  | x :: xs, i => by
    simp only [toksL, oneLineL]
    have hx := oneLine_interleave o x
    have hr := oneLineL_interleave o xs (i + 1)
    by_cases hi : i > 0
    · simp only [hi, ↓reduceIte]
      exact ((arrSep_interleave o).append hx).append hr
    · simp only [hi, ↓reduceIte]
      simpa using hx.append hr
theorem oneLineM_interleave (o : PrintOptions) : ∀ es i, Interleave (toksM es i) (oneLineM o es i)
  | [], _ => Interleave.ws AllWs.nil
  | (k, x) :: es, i => by
    simp only [toksM, oneLineM]
    have hk := keyText_interleave o k
    have hx := oneLine_interleave o x
    have hr := oneLineM_interleave o es (i + 1)
    by_cases hi : i > 0
    · simp only [hi, ↓reduceIte]
      exact (((objSep_interleave o).append hk).append hx).append hr
    · simp only [hi, ↓reduceIte]
      simpa using (hk.append hx).append hr
end

theorem nlIndent_ws (o : PrintOptions) (n : Nat) : AllWs ('\n' :: indentBy o n) := by
  have := AllWs.nl.append (AllWs.indent o n); simpa using this

mutual
theorem spec_interleave (o : PrintOptions) : ∀ v ind, Interleave (toks v) (specPrint o ind v)
  | .null, _ => Interleave.single _
  | .bool _, _ => Interleave.single _
  | .number _, _ => Interleave.single _
  | .string _, _ => Interleave.single _
  | .array xs, ind => by
    simp only [specPrint]
    by_cases hi : inl o (.array xs)
    · simp only [hi, ↓reduceIte]; exact oneLine_interleave o _
    · simp only [hi]
      cases xs with
      | nil =>
        have := (Interleave.tokWs ['['] (nlIndent_ws o ind)).append (Interleave.single [']'])
        simpa [toks, toksL] using this
      | cons x xs =>
        have h := specL_interleave o (x :: xs) 0 ind
        have := ((Interleave.tokWs ['['] AllWs.nl).append h).append
          ((Interleave.ws (nlIndent_ws o ind)).append (Interleave.single [']']))
        simpa [toks] using this
  | .object es, ind => by
    simp only [specPrint]
    by_cases hi : inl o (.object es)
    · simp only [hi, ↓reduceIte]; exact oneLine_interleave o _
    · simp only [hi]
      cases es with
      | nil =>
        have := (Interleave.tokWs ['{'] (nlIndent_ws o ind)).append (Interleave.single ['}'])
        simpa [toks, toksM] using this
      | cons e es =>
        have h := specM_interleave o (e :: es) 0 ind
        have := ((Interleave.tokWs ['{'] AllWs.nl).append h).append
          ((Interleave.ws (nlIndent_ws o ind)).append (Interleave.single ['}']))
        simpa [toks] using this
theorem specL_interleave (o : PrintOptions) :
    ∀ xs i ind, Interleave (toksL xs i) (specL o ind xs i)
  | [], _, _ => Interleave.ws AllWs.nil
  | x :: xs, i, ind => by
    simp only [toksL, specL]
    have hx := spec_interleave o x (ind + 1)
    have hr := specL_interleave o xs (i + 1) ind
    have hind := Interleave.ws (AllWs.indent o (ind + 1))
    by_cases hi : i > 0
    · simp only [hi, ↓reduceIte]
      have hsep : Interleave [[',']] (spaces o.arrayBeforeComma ++ [',', '\n']) := by
        have := (Interleave.ws (AllWs.spaces o.arrayBeforeComma)).append (Interleave.tokWs [','] AllWs.nl)
        simpa using this
      have := ((hsep.append hind).append hx).append hr
      simpa using this
    · simp only [hi, ↓reduceIte]
      have := (hind.append hx).append hr
      simpa using this
theorem specM_interleave (o : PrintOptions) :
    ∀ es i ind, Interleave (toksM es i) (specM o ind es i)
  | [], _, _ => Interleave.ws AllWs.nil
  | (k, x) :: es, i, ind => by
    simp only [toksM, specM]
    have hk := keyText_interleave o k
    have hx := spec_interleave o x (ind + 1)
    have hr := specM_interleave o es (i + 1) ind
    have hind := Interleave.ws (AllWs.indent o (ind + 1))
    by_cases hi : i > 0
    · simp only [hi, ↓reduceIte]
      have hsep : Interleave [[',']] (spaces o.objectBeforeComma ++ [',', '\n']) := by
        have := (Interleave.ws (AllWs.spaces o.objectBeforeComma)).append (Interleave.tokWs [','] AllWs.nl)
        simpa using this
      have := (((hsep.append hind).append hk).append hx).append hr
      simpa using this
    · simp only [hi, ↓reduceIte]
      have := ((hind.append hk).append hx).append hr
      simpa using this
end

-- the reference serializer is the interleaving with no whitespace at all: the plain concatenation
mutual
theorem refSerialize_flatten : ∀ v, refSerialize v = (toks v).flatten
  | .null => by simp [refSerialize, toks]
  | .bool _ => by simp [refSerialize, toks]
  | .number _ => by simp [refSerialize, toks]
  | .string _ => by simp [refSerialize, toks]
  | .array xs => by simp [refSerialize, toks, refSerializeL_flatten xs 0]
  | .object es => by simp [refSerialize, toks, refSerializeM_flatten es 0]
theorem refSerializeL_flatten : ∀ xs i, refSerializeL xs i = (toksL xs i).flatten
  | [], _ => rfl
  | x :: xs, i => by
    simp only [refSerializeL, toksL, refSerialize_flatten x, refSerializeL_flatten xs (i + 1)]
    split <;> simp
theorem refSerializeM_flatten : ∀ es i, refSerializeM es i = (toksM es i).flatten
  | [], _ => rfl
  | (k, x) :: es, i => by
    simp only [refSerializeM, toksM, refSerialize_flatten x, refSerializeM_flatten es (i + 1)]
    split <;> simp
end

end JsonVerif
