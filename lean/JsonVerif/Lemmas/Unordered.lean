import JsonVerif.Model.Unordered
import JsonVerif.Spec.PermEq
/-! # `unordered_eq` versus equality up to permutation (C15) -/
namespace JsonVerif

/-- what a successful pick means -/
theorem ueqPick_some {f : JValue → Bool} {k : List Char} :
    ∀ {b b' : List (List Char × JValue)}, ueqPick f k b = some b' →
      ∃ b1 y b2, b = b1 ++ (k, y) :: b2 ∧ f y = true ∧ b' = b1 ++ b2
  | [], _, h => by simp [ueqPick] at h
  | (l, y) :: b, b', h => by
    simp only [ueqPick] at h
    split at h
    · rename_i hc
      simp only [Bool.and_eq_true, beq_iff_eq] at hc
      cases h
      exact ⟨[], y, b, by rw [hc.1]; rfl, hc.2, rfl⟩
    · cases hp : ueqPick f k b with
      | none => simp [hp] at h
      | some b0 =>
        simp [hp] at h
        obtain ⟨b1, y', b2, e1, e2, e3⟩ := ueqPick_some hp
        exact ⟨(l, y) :: b1, y', b2, by rw [e1]; rfl, e2, by rw [← h, e3]; rfl⟩

mutual
/-- **Soundness**: whatever `unordered_eq` accepts is equal up to permutation of object entries. -/
theorem ueq_sound : ∀ (a b : JValue), ueq a b = true → PermEq a b
  | .null, b, h => by cases b <;> simp [ueq] at h; exact .null
  | .bool x, b, h => by cases b <;> simp [ueq] at h; subst h; exact .bool _
  | .number x, b, h => by cases b <;> simp [ueq] at h; subst h; exact .number _
  | .string x, b, h => by cases b <;> simp [ueq] at h; subst h; exact .string _
  | .array xs, b, h => by
    cases b <;> simp [ueq] at h
    exact .array (ueqL_sound xs _ h)
  | .object es, b, h => by
    cases b <;> simp [ueq] at h
    exact .object (ueqM_sound es _ h.2 h.1)
theorem ueqL_sound : ∀ (a b : List JValue), ueqL a b = true → PermEqL a b
  | [], [], _ => .nil
  | [], _ :: _, h => by simp [ueqL] at h
  | _ :: _, [], h => by simp [ueqL] at h
  | x :: xs, y :: ys, h => by
    simp [ueqL] at h
    exact .cons (ueq_sound x y h.1) (ueqL_sound xs ys h.2)
theorem ueqM_sound : ∀ (a b : List (List Char × JValue)), ueqM a b = true → a.length = b.length →
    PermEqM a b
  | [], b, _, hl => by
    have : b = [] := by cases b <;> simp_all
    subst this; exact .nil
  | (k, x) :: a, b, h, hl => by
    simp only [ueqM] at h
    split at h
    · cases h
    · rename_i b' hp
      obtain ⟨b1, y, b2, e1, e2, e3⟩ := ueqPick_some hp
      subst e1 e3
      have hl' : a.length = (b1 ++ b2).length := by simp at hl ⊢; omega
      exact .cons (ueq_sound x y e2) (ueqM_sound a _ h hl')
end

mutual
/-- Ordinary equality implies unordered equality. -/
theorem ueq_refl : ∀ a : JValue, ueq a a = true
  | .null => rfl
  | .bool _ => by simp [ueq]
  | .number _ => by simp [ueq]
  | .string _ => by simp [ueq]
  | .array xs => by simp [ueq, ueqL_refl xs]
  | .object es => by simp [ueq, ueqM_refl es]
theorem ueqL_refl : ∀ a : List JValue, ueqL a a = true
  | [] => rfl
  | x :: xs => by simp [ueqL, ueq_refl x, ueqL_refl xs]
theorem ueqM_refl : ∀ a : List (List Char × JValue), ueqM a a = true
  | [] => rfl
  | (k, x) :: a => by simp [ueqM, ueqPick, ueq_refl x, ueqM_refl a]
end

end JsonVerif
