import JsonVerif.Model.Canon
import JsonVerif.Lemmas.OrderLaws
/-!
# Canonicalization: the sort order is a total order on entries; results are sorted permutations;
# idempotence and permutation invariance (C09 structure, C10)
-/
namespace JsonVerif

theorem cmpNats_refl : ∀ a, cmpNats a a = .eq
  | [] => rfl
  | c :: r => by simp [cmpNats, cmpNat_refl, cmpNats_refl r]

theorem cmpNats_eq : ∀ {a b}, cmpNats a b = .eq → a = b
  | [], [], _ => rfl
  | [], _ :: _, h => by simp [cmpNats] at h
  | _ :: _, [], h => by simp [cmpNats] at h
  | x :: xs, y :: ys, h => by
    simp only [cmpNats] at h
    split at h
    · rename_i hxy
      rw [cmpNat_eq hxy, cmpNats_eq h]
    · rename_i o ho
      cases o <;> simp_all

theorem cmpNats_swap : ∀ a b, cmpNats b a = (cmpNats a b).swap
  | [], [] => rfl
  | [], _ :: _ => rfl
  | _ :: _, [] => rfl
  | x :: xs, y :: ys => by
    simp only [cmpNats]
    rw [cmpNat_swap x y]
    cases h : cmpNat x y <;> simp [Ordering.swap, cmpNats_swap xs ys]

theorem cmpNats_trans : ∀ {a b c}, cmpNats a b = .lt → cmpNats b c = .lt → cmpNats a c = .lt
  | [], [], _, h, _ => by simp [cmpNats] at h
  | [], _ :: _, [], _, h => by simp [cmpNats] at h
  | [], _ :: _, _ :: _, _, _ => rfl
  | _ :: _, [], _, h, _ => by simp [cmpNats] at h
  | _ :: _, _ :: _, [], _, h => by simp [cmpNats] at h
  | x :: xs, y :: ys, z :: zs, h1, h2 => by
    simp only [cmpNats] at *
    cases hxy : cmpNat x y with
    | gt => simp [hxy] at h1
    | lt =>
      cases hyz : cmpNat y z with
      | gt => simp [hyz] at h2
      | lt => simp [cmpNat_trans hxy hyz]
      | eq => have := cmpNat_eq hyz; rw [← this]; simp [hxy]
    | eq =>
      have e1 := cmpNat_eq hxy
      cases hyz : cmpNat y z with
      | gt => simp [hyz] at h2
      | lt => rw [e1]; simp [hyz]
      | eq =>
        rw [e1]; simp only [hyz]
        simp only [hxy] at h1; simp only [hyz] at h2
        exact cmpNats_trans h1 h2

/-- UTF-16 encoding is injective on scalar values (a `Char` is never a surrogate). -/
theorem utf16_inj : ∀ {a b : List Char}, utf16 a = utf16 b → a = b
  | [], [], _ => rfl
  | [], c :: r, h => by
    simp only [utf16, List.flatMap_nil, List.flatMap_cons, utf16Units] at h
    split at h <;> simp at h
  | c :: r, [], h => by
    simp only [utf16, List.flatMap_nil, List.flatMap_cons, utf16Units] at h
    split at h <;> simp at h
  | c :: r, d :: s, h => by
    have hc := c.valid
    have hd := d.valid
    simp only [utf16, List.flatMap_cons, utf16Units] at h
    have vc : c.toNat < 0xD800 ∨ (0xDFFF < c.toNat ∧ c.toNat < 0x110000) := hc
    have vd : d.toNat < 0xD800 ∨ (0xDFFF < d.toNat ∧ d.toNat < 0x110000) := hd
    by_cases h1 : c.toNat < 0x10000 <;> by_cases h2 : d.toNat < 0x10000
    · simp only [h1, h2, ↓reduceIte, List.cons_append, List.nil_append, List.cons.injEq] at h
      have : c = d := Char.toNat_inj.mp h.1
      rw [this, utf16_inj (a := r) (b := s) h.2]
    · simp only [h1, h2, ↓reduceIte, List.cons_append, List.nil_append, List.cons.injEq] at h
      omega
    · simp only [h1, h2, ↓reduceIte, List.cons_append, List.nil_append, List.cons.injEq] at h
      omega
    · simp only [h1, h2, ↓reduceIte, List.cons_append, List.nil_append, List.cons.injEq] at h
      have : c.toNat = d.toNat := by omega
      have : c = d := Char.toNat_inj.mp this
      rw [this, utf16_inj (a := r) (b := s) h.2.2]

theorem canonEntryCmp_refl (a : List Char × JValue) : canonEntryCmp a a = .eq := by
  simp [canonEntryCmp, cmpNats_refl, cmp_refl]

theorem canonEntryCmp_eq {a b : List Char × JValue} (h : canonEntryCmp a b = .eq) : a = b := by
  unfold canonEntryCmp at h
  split at h
  · rename_i hk
    have h1 := utf16_inj (cmpNats_eq hk)
    have h2 := cmp_eq h
    exact Prod.ext h1 h2
  · rename_i o ho; cases o <;> simp_all

theorem canonEntryCmp_swap (a b : List Char × JValue) :
    canonEntryCmp b a = (canonEntryCmp a b).swap := by
  unfold canonEntryCmp
  rw [cmpNats_swap (utf16 a.1) (utf16 b.1), cmp_swap a.2 b.2]
  cases cmpNats (utf16 a.1) (utf16 b.1) <;> simp [Ordering.swap]

theorem canonEntryCmp_trans {a b c : List Char × JValue}
    (h1 : canonEntryCmp a b = .lt) (h2 : canonEntryCmp b c = .lt) : canonEntryCmp a c = .lt := by
  unfold canonEntryCmp at *
  cases hab : cmpNats (utf16 a.1) (utf16 b.1) with
  | gt => simp [hab] at h1
  | lt =>
    cases hbc : cmpNats (utf16 b.1) (utf16 c.1) with
    | gt => simp [hbc] at h2
    | lt => simp [cmpNats_trans hab hbc]
    | eq => have := cmpNats_eq hbc; rw [← this]; simp [hab]
  | eq =>
    have e1 := cmpNats_eq hab
    cases hbc : cmpNats (utf16 b.1) (utf16 c.1) with
    | gt => simp [hbc] at h2
    | lt => rw [e1]; simp [hbc]
    | eq =>
      rw [e1]; simp only [hbc]
      simp only [hab] at h1; simp only [hbc] at h2
      exact cmp_trans h1 h2

theorem canonEntryLe_total (a b : List Char × JValue) : (canonEntryLe a b || canonEntryLe b a) = true := by
  unfold canonEntryLe
  rw [canonEntryCmp_swap a b]
  cases canonEntryCmp a b <;> simp [Ordering.swap]

theorem canonEntryLe_trans (a b c : List Char × JValue)
    (h1 : canonEntryLe a b = true) (h2 : canonEntryLe b c = true) : canonEntryLe a c = true := by
  unfold canonEntryLe at *
  cases hab : canonEntryCmp a b with
  | gt => simp [hab] at h1
  | eq => rw [canonEntryCmp_eq hab]; exact h2
  | lt =>
    cases hbc : canonEntryCmp b c with
    | gt => simp [hbc] at h2
    | eq => rw [← canonEntryCmp_eq hbc, hab]; rfl
    | lt => rw [canonEntryCmp_trans hab hbc]; rfl

theorem canonEntryLe_antisymm (a b : List Char × JValue)
    (h1 : canonEntryLe a b = true) (h2 : canonEntryLe b a = true) : a = b := by
  unfold canonEntryLe at *
  rw [canonEntryCmp_swap a b] at h2
  cases hab : canonEntryCmp a b with
  | gt => simp [hab] at h1
  | eq => exact canonEntryCmp_eq hab
  | lt => simp [hab, Ordering.swap] at h2

/-- the canonical entry order: sorted, and uniquely determined by the multiset of entries -/
theorem sortCanon_sorted (l : List (List Char × JValue)) :
    (l.mergeSort canonEntryLe).Pairwise (fun a b => canonEntryLe a b = true) :=
  List.pairwise_mergeSort canonEntryLe_trans canonEntryLe_total l

theorem sortCanon_perm_eq {l l' : List (List Char × JValue)} (h : l.Perm l') :
    l.mergeSort canonEntryLe = l'.mergeSort canonEntryLe := by
  apply List.Perm.eq_of_pairwise (le := fun a b => canonEntryLe a b = true)
  · intro a b _ _ h1 h2; exact canonEntryLe_antisymm a b h1 h2
  · exact sortCanon_sorted l
  · exact sortCanon_sorted l'
  · exact ((List.mergeSort_perm l _).trans h).trans (List.mergeSort_perm l' _).symm

end JsonVerif
