import JsonVerif.Lemmas.DeNum
import JsonVerif.Lemmas.DeStruct
/-!
# The round trip `de ty (ser d) = d` for every well-typed datum
-/
namespace JsonVerif

theorem IntW.bounds (w : IntW) : -(2 ^ 63 : Int) ≤ w.lo ∧ w.hi < 2 ^ 64 ∧ w.lo ≤ 0 ∧ 0 ≤ w.hi := by
  cases w <;> simp [IntW.lo, IntW.hi]

theorem IntW.lo_unsigned (w : IntW) (h : w.signed = false) : w.lo = 0 := by
  cases w <;> simp_all [IntW.lo, IntW.signed]

theorem IntW.hi_signed (w : IntW) (h : w.signed = true) : w.hi < 2 ^ 63 := by
  cases w <;> simp_all [IntW.hi, IntW.signed]

/-- an integer of width `w`: `to_value` writes its decimal text, the integer visitor reads it back -/
theorem int_rt (w : IntW) (i : Int) (h1 : w.lo ≤ i) (h2 : i ≤ w.hi) :
    ∃ n, ser (w.mk i) = .ok (.number n) ∧ intVisit w n = .ok (w.mk i) := by
  have hb := IntW.bounds w
  cases hs : w.signed with
  | true =>
    have hh := IntW.hi_signed w hs
    refine ⟨intText i, by simp [IntW.mk, hs, ser], ?_⟩
    cases i with
    | ofNat n =>
      have h2' : (n : Int) ≤ w.hi := h2
      have hn : n < 2 ^ 64 := by omega
      simp only [intVisit, intText_ofNat, numEvent_natText n hn]
      rw [if_pos (by simpa using h2)]
      rfl
    | negSucc m =>
      simp only [intVisit, numEvent_neg m (by omega)]
      rw [if_pos ⟨h1, h2⟩]
  | false =>
    have hl := IntW.lo_unsigned w hs
    have hn : i.toNat < 2 ^ 64 := by omega
    refine ⟨natText i.toNat, by simp [IntW.mk, hs, ser], ?_⟩
    simp only [intVisit, numEvent_natText _ hn]
    rw [if_pos (by omega)]
    simp only [IntW.mk, hs, Bool.false_eq_true, ↓reduceIte, Int.toNat_natCast]

/-- an integer map key: `to_string`, then `str::parse` -/
theorem intKey_rt (w : IntW) (i : Int) (h1 : w.lo ≤ i) (h2 : i ≤ w.hi) :
    ∃ n, serKey (w.mk i) = .ok n ∧ deKey (.int w) n = .ok (w.mk i) := by
  cases hs : w.signed with
  | true =>
    refine ⟨intText i, by simp [IntW.mk, hs, serKey], ?_⟩
    have : parseIntR true (intText i) = some i := by
      cases i with
      | ofNat n => rw [intText_ofNat]; exact parseIntR_natText true n
      | negSucc m => exact parseIntR_neg m
    simp [deKey, parseKeyInt, hs, this, h1, h2]
  | false =>
    have hl := IntW.lo_unsigned w hs
    refine ⟨natText i.toNat, by simp [IntW.mk, hs, serKey], ?_⟩
    have hi : ((i.toNat : Nat) : Int) = i := by omega
    simp only [deKey, parseKeyInt, hs, parseIntR_natText, hi]
    rw [if_pos ⟨h1, h2⟩]

theorem key_rt : ∀ (k : KTy) (kd : SData), HasKey k kd →
    ∃ n, serKey kd = .ok n ∧ deKey k n = .ok kd
  | .str, kd, h => by
    obtain ⟨s, rfl⟩ := h
    exact ⟨s, rfl, rfl⟩
  | .int w, kd, h => by
    obtain ⟨i, h1, h2, rfl⟩ := h
    exact intKey_rt w i h1 h2
  | .char, kd, h => by
    obtain ⟨c, rfl⟩ := h
    exact ⟨[c], rfl, rfl⟩
  | .unitEnum names, kd, h => by
    obtain ⟨v, rfl, hv⟩ := h
    refine ⟨v, rfl, ?_⟩
    simp [deKey, hv]
  | .newtype k, kd, h => by
    obtain ⟨x, rfl, hx⟩ := h
    obtain ⟨n, h1, h2⟩ := key_rt k x hx
    exact ⟨n, by simpa [serKey] using h1, by simp [deKey, h2]⟩

theorem zip_fst_snd {α β : Type} : ∀ (l : List (α × β)), (l.map (·.1)).zip (l.map (·.2)) = l
  | [] => rfl
  | (a, b) :: l => by simp [zip_fst_snd l]

theorem deVariant_skip (env : FEnv) (n : List Char) (p : DTy) (vs : List (List Char × DTy))
    (k : List Char) (payload : Option JValue) (h : (n == k) = false) :
    deVariant env ((n, p) :: vs) k payload = deVariant env vs k payload := by
  cases p <;> simp [deVariant, h]

theorem variant_skip (env : FEnv) (n : List Char) (p : DTy) (vs : List (List Char × DTy)) (d : SData)
    (hne : variantOf d ≠ some n)
    (ih : ∃ k v, variantOf d = some k ∧ ser d = .ok v ∧
      ((v = .string k ∧ deVariant env vs k none = .ok d) ∨
       (∃ x, v = .object [(k, x)] ∧ deVariant env vs k (some x) = .ok d))) :
    ∃ k v, variantOf d = some k ∧ ser d = .ok v ∧
      ((v = .string k ∧ deVariant env ((n, p) :: vs) k none = .ok d) ∨
       (∃ x, v = .object [(k, x)] ∧ deVariant env ((n, p) :: vs) k (some x) = .ok d)) := by
  obtain ⟨k, v, hk, hs, hv⟩ := ih
  have hnk : (n == k) = false := by
    simp; intro e; apply hne; rw [hk, e]
  refine ⟨k, v, hk, hs, ?_⟩
  rcases hv with ⟨rfl, hd⟩ | ⟨x, rfl, hd⟩
  · exact Or.inl ⟨rfl, by rw [deVariant_skip env n p vs k none hnk, hd]⟩
  · exact Or.inr ⟨x, rfl, by rw [deVariant_skip env n p vs k (some x) hnk, hd]⟩

/-- what a field list needs for the struct lemmas -/
theorem fields_names : ∀ (env : FEnv) (fs : List (List Char × DTy)) (l : List (List Char × SData)),
    HasTyF env fs l → l.map (·.1) = fs.map (·.1)
  | _, [], l, h => by simp [HasTyF] at h; simp [h]
  | env, (n, t) :: fs, l, h => by
    obtain ⟨y, ys, rfl, _, hr⟩ := h
    simp [fields_names env fs ys hr]

mutual
theorem de_ser (env : FEnv) : ∀ (t : DTy) (d : SData), HasTy env t d →
    ∃ v, ser d = .ok v ∧ de env t v = .ok d
  | .bool, d, h => by obtain ⟨b, rfl⟩ := h; exact ⟨_, rfl, rfl⟩
  | .int w, d, h => by
    obtain ⟨i, h1, h2, rfl⟩ := h
    obtain ⟨n, hs, hv⟩ := int_rt w i h1 h2
    exact ⟨_, hs, by simpa [de] using hv⟩
  | .f32, d, h => by obtain ⟨t, rfl, ht⟩ := h; exact ⟨.number t, rfl, by simp [de, ht]⟩
  | .f64, d, h => by obtain ⟨t, rfl, ht⟩ := h; exact ⟨.number t, rfl, by simp [de, ht]⟩
  | .char, d, h => by obtain ⟨c, rfl⟩ := h; exact ⟨_, rfl, rfl⟩
  | .str, d, h => by obtain ⟨s, rfl⟩ := h; exact ⟨_, rfl, rfl⟩
  | .unit, d, h => by cases h; exact ⟨_, rfl, rfl⟩
  | .unitStruct, d, h => by cases h; exact ⟨_, rfl, rfl⟩
  | .opt t, d, h => by
    rcases h with rfl | ⟨x, rfl, hx, hnn⟩
    · exact ⟨.null, rfl, rfl⟩
    · obtain ⟨v, hs, hd⟩ := de_ser env t x hx
      refine ⟨v, by simpa [ser] using hs, ?_⟩
      have hv : v ≠ .null := by intro e; rw [e] at hs; exact hnn hs
      cases v <;> simp_all [de]
  | .newtype t, d, h => by
    obtain ⟨x, rfl, hx⟩ := h
    obtain ⟨v, hs, hd⟩ := de_ser env t x hx
    exact ⟨v, by simpa [ser] using hs, by simp [de, hd]⟩
  | .seq t, d, h => by
    obtain ⟨xs, rfl, hxs⟩ := h
    have key : ∀ (xs : List SData), (∀ x ∈ xs, HasTy env t x) →
        ∃ vs, serL xs = .ok vs ∧ vs.map (de env t) = xs.map Except.ok := by
      intro xs
      induction xs with
      | nil => intro _; exact ⟨[], rfl, rfl⟩
      | cons x xs ih =>
        intro hx
        obtain ⟨v, hs, hd⟩ := de_ser env t x (hx x (by simp))
        obtain ⟨vs, hs2, hd2⟩ := ih (fun y hy => hx y (by simp [hy]))
        exact ⟨v :: vs, by simp [serL, hs, hs2], by simp [hd, hd2]⟩
    obtain ⟨vs, hs, hd⟩ := key xs hxs
    exact ⟨.array vs, by simp [ser, hs], by simp [de, mapE_ok _ _ _ hd]⟩
  | .tuple ts, d, h => by
    obtain ⟨xs, rfl, hxs⟩ := h
    obtain ⟨vs, hs, hd⟩ := de_serL env ts xs hxs
    exact ⟨.array vs, by simp [ser, hs], by simp [de, hd, seqDone]⟩
  | .map k t, d, h => by
    obtain ⟨l, rfl, hl, ns, hns, hnd, hnt⟩ := h
    have key : ∀ (l : List (SData × SData)) (ns : List (List Char)),
        (∀ e ∈ l, HasKey k e.1 ∧ HasTy env t e.2) → l.map (fun e => serKey e.1) = ns.map Except.ok →
        ∃ vs, l.map (fun e => ser e.2) = vs.map Except.ok ∧
          (ns.zip vs).map (deEntry k (de env t)) = l.map Except.ok := by
      intro l
      induction l with
      | nil => intro ns _ h; cases ns with
        | nil => exact ⟨[], rfl, rfl⟩
        | cons _ _ => simp at h
      | cons e l ih =>
        intro ns he hns
        cases ns with
        | nil => simp at hns
        | cons n ns =>
          simp only [List.map_cons, List.cons.injEq] at hns
          obtain ⟨hk, hv⟩ := he e (by simp)
          obtain ⟨n', hn1, hn2⟩ := key_rt k e.1 hk
          have : n' = n := by rw [hn1] at hns; exact Except.ok.inj hns.1
          subst this
          obtain ⟨v, hs, hd⟩ := de_ser env t e.2 hv
          obtain ⟨vs, hs2, hd2⟩ := ih ns (fun y hy => he y (by simp [hy])) hns.2
          exact ⟨v :: vs, by simp [hs, hs2], by simp [deEntry, hn2, hd, hd2]⟩
    obtain ⟨vs, hs, hd⟩ := key l ns hl hns
    refine ⟨.object (ns.zip vs), ?_, ?_⟩
    · have := serMap_typed l ns vs [] hns hs (by simpa using hnd) hnt
      simpa [ser] using this
    · simp only [de]
      rw [mapE_ok _ _ _ hd]
  | .struct fs, d, h => by
    obtain ⟨l, rfl, hl, hnd, hnt⟩ := h
    obtain ⟨vs, hs, hd⟩ := de_serF env fs l hl
    have hnames := fields_names env fs l hl
    refine ⟨.object ((fs.map (·.1)).zip vs), ?_, ?_⟩
    · have := serFields_typed l vs [] hs (by simpa [hnames] using hnd) (by simpa [hnames] using hnt)
      simpa [ser, hnames] using this
    · obtain ⟨h1, h2⟩ := structVisit_typed env fs hnd _ _ hd
      simp only [de, h1, h2]
      congr 2
      rw [← hnames]
      exact zip_fst_snd l
  | .enum vs, d, h => by
    obtain ⟨k, v, _, hs, hv⟩ := de_serV env vs d h
    refine ⟨v, hs, ?_⟩
    rcases hv with ⟨rfl, hd⟩ | ⟨x, rfl, hd⟩
    · simpa [de] using hd
    · simpa [de] using hd
theorem de_serL (env : FEnv) : ∀ (ts : List DTy) (xs : List SData), HasTyL env ts xs →
    ∃ vs, serL xs = .ok vs ∧ deTuple env ts vs = .ok (xs, []) ∧ (ts ≠ [] → vs ≠ [])
  | [], xs, h => by cases h; exact ⟨[], rfl, rfl, by simp⟩
  | t :: ts, xs, h => by
    obtain ⟨y, ys, rfl, hy, hys⟩ := h
    obtain ⟨v, hs, hd⟩ := de_ser env t y hy
    obtain ⟨vs, hs2, hd2, _⟩ := de_serL env ts ys hys
    exact ⟨v :: vs, by simp [serL, hs, hs2], by simp [deTuple, hd, hd2], by simp⟩
theorem de_serF (env : FEnv) : ∀ (fs : List (List Char × DTy)) (l : List (List Char × SData)),
    HasTyF env fs l →
    ∃ vs, l.map (fun f => ser f.2) = vs.map Except.ok ∧
      DeFields env fs ((fs.map (·.1)).zip vs) (l.map (·.2))
  | [], l, h => by cases h; exact ⟨[], rfl, rfl, rfl⟩
  | (n, t) :: fs, l, h => by
    obtain ⟨y, ys, rfl, hy, hys⟩ := h
    obtain ⟨v, hs, hd⟩ := de_ser env t y hy
    obtain ⟨vs, hs2, hd2⟩ := de_serF env fs ys hys
    exact ⟨v :: vs, by simp [hs, hs2], ⟨v, _, y, _, rfl, rfl, hd, hd2⟩⟩
theorem de_serV (env : FEnv) : ∀ (vs : List (List Char × DTy)) (d : SData), HasTyV env vs d →
    ∃ k v, variantOf d = some k ∧ ser d = .ok v ∧
      ((v = .string k ∧ deVariant env vs k none = .ok d) ∨
       (∃ x, v = .object [(k, x)] ∧ deVariant env vs k (some x) = .ok d))
  | [], _, h => by cases h
  | (n, .unit) :: vs, d, h => by
    rcases h with h | ⟨hne, hr⟩
    · cases h
      exact ⟨n, .string n, rfl, rfl, Or.inl ⟨rfl, by simp [deVariant]⟩⟩
    · exact variant_skip env n _ vs d hne (de_serV env vs d hr)
  | (n, .newtype t) :: vs, d, h => by
    rcases h with h | ⟨hne, hr⟩
    · obtain ⟨x, rfl, hx⟩ := h
      obtain ⟨v, hs, hd⟩ := de_ser env t x hx
      exact ⟨n, .object [(n, v)], rfl, by simp [ser, hs], Or.inr ⟨v, rfl, by simp [deVariant, hd]⟩⟩
    · exact variant_skip env n _ vs d hne (de_serV env vs d hr)
  | (n, .tuple ts) :: vs, d, h => by
    rcases h with h | ⟨hne, hr⟩
    · obtain ⟨xs, rfl, hxs, hne⟩ := h
      obtain ⟨ws, hs, hd, hnn⟩ := de_serL env ts xs hxs
      refine ⟨n, .object [(n, .array ws)], rfl, by simp [ser, hs], Or.inr ⟨.array ws, rfl, ?_⟩⟩
      cases ws with
      | nil => exact absurd rfl (hnn hne)
      | cons w ws => simp [deVariant, hd, seqDone]
    · exact variant_skip env n _ vs d hne (de_serV env vs d hr)
  | (n, .struct fs) :: vs, d, h => by
    rcases h with h | ⟨hne, hr⟩
    · obtain ⟨l, rfl, hl, hnd⟩ := h
      obtain ⟨ws, hs, hd⟩ := de_serF env fs l hl
      have hnames := fields_names env fs l hl
      refine ⟨n, .object [(n, .object ((fs.map (·.1)).zip ws))], rfl, ?_, Or.inr ⟨_, rfl, ?_⟩⟩
      · have := serFieldsPlain_typed l ws [] hs (by simpa [hnames] using hnd)
        simp [ser, this, hnames]
      · obtain ⟨h1, h2⟩ := structVisit_typed env fs hnd _ _ hd
        simp only [deVariant, beq_self_eq_true, ↓reduceIte, h1, h2]
        congr 2
        rw [← hnames]
        exact zip_fst_snd l
    · exact variant_skip env n _ vs d hne (de_serV env vs d hr)
  | (n, .bool) :: vs, d, h => by
    rcases h with h | ⟨hne, hr⟩
    · exact h.elim
    · exact variant_skip env n _ vs d hne (de_serV env vs d hr)
  | (n, .int w) :: vs, d, h => by
    rcases h with h | ⟨hne, hr⟩
    · exact h.elim
    · exact variant_skip env n _ vs d hne (de_serV env vs d hr)
  | (n, .f32) :: vs, d, h => by
    rcases h with h | ⟨hne, hr⟩
    · exact h.elim
    · exact variant_skip env n _ vs d hne (de_serV env vs d hr)
  | (n, .f64) :: vs, d, h => by
    rcases h with h | ⟨hne, hr⟩
    · exact h.elim
    · exact variant_skip env n _ vs d hne (de_serV env vs d hr)
  | (n, .char) :: vs, d, h => by
    rcases h with h | ⟨hne, hr⟩
    · exact h.elim
    · exact variant_skip env n _ vs d hne (de_serV env vs d hr)
  | (n, .str) :: vs, d, h => by
    rcases h with h | ⟨hne, hr⟩
    · exact h.elim
    · exact variant_skip env n _ vs d hne (de_serV env vs d hr)
  | (n, .unitStruct) :: vs, d, h => by
    rcases h with h | ⟨hne, hr⟩
    · exact h.elim
    · exact variant_skip env n _ vs d hne (de_serV env vs d hr)
  | (n, .opt t) :: vs, d, h => by
    rcases h with h | ⟨hne, hr⟩
    · exact h.elim
    · exact variant_skip env n _ vs d hne (de_serV env vs d hr)
  | (n, .seq t) :: vs, d, h => by
    rcases h with h | ⟨hne, hr⟩
    · exact h.elim
    · exact variant_skip env n _ vs d hne (de_serV env vs d hr)
  | (n, .map k t) :: vs, d, h => by
    rcases h with h | ⟨hne, hr⟩
    · exact h.elim
    · exact variant_skip env n _ vs d hne (de_serV env vs d hr)
  | (n, .enum es) :: vs, d, h => by
    rcases h with h | ⟨hne, hr⟩
    · exact h.elim
    · exact variant_skip env n _ vs d hne (de_serV env vs d hr)
end

end JsonVerif

namespace JsonVerif

/-- the key serializer is injective on the data of a key type: distinct keys are spelled differently -/
theorem serKey_inj : ∀ (k : KTy) (a b : SData) (n : List Char), HasKey k a → HasKey k b →
    serKey a = .ok n → serKey b = .ok n → a = b
  | .str, a, b, n, ha, hb, h1, h2 => by
    obtain ⟨s, rfl⟩ := ha; obtain ⟨t, rfl⟩ := hb
    simp only [serKey, Except.ok.injEq] at h1 h2
    rw [h1, h2]
  | .char, a, b, n, ha, hb, h1, h2 => by
    obtain ⟨c, rfl⟩ := ha; obtain ⟨d, rfl⟩ := hb
    simp only [serKey, Except.ok.injEq] at h1 h2
    rw [← h2] at h1
    simp only [List.cons.injEq, and_true] at h1
    rw [h1]
  | .unitEnum names, a, b, n, ha, hb, h1, h2 => by
    obtain ⟨v, rfl, _⟩ := ha; obtain ⟨w, rfl, _⟩ := hb
    simp only [serKey, Except.ok.injEq] at h1 h2
    rw [h1, h2]
  | .newtype k, a, b, n, ha, hb, h1, h2 => by
    obtain ⟨x, rfl, hx⟩ := ha; obtain ⟨y, rfl, hy⟩ := hb
    simp only [serKey] at h1 h2
    rw [serKey_inj k x y n hx hy h1 h2]
  | .int w, a, b, n, ha, hb, h1, h2 => by
    obtain ⟨i, hi1, hi2, rfl⟩ := ha; obtain ⟨j, hj1, hj2, rfl⟩ := hb
    obtain ⟨n1, e1, d1⟩ := intKey_rt w i hi1 hi2
    obtain ⟨n2, e2, d2⟩ := intKey_rt w j hj1 hj2
    rw [h1] at e1; rw [h2] at e2
    have : n1 = n2 := by rw [← Except.ok.inj e1, ← Except.ok.inj e2]
    subst this
    rw [d1] at d2
    exact Except.ok.inj d2

/-- a map datum whose keys are pairwise distinct data of one key type, none of them spelled like the
    private number token, satisfies the side condition `KeysOk` of `HasTy` -/
theorem keysOk_of_nodup (k : KTy) : ∀ (l : List (SData × SData)), (∀ e ∈ l, HasKey k e.1) →
    (l.map (·.1)).Pairwise (· ≠ ·) → (∀ e ∈ l, serKey e.1 ≠ .ok numberToken) → KeysOk l
  | [], _, _, _ => ⟨[], rfl, List.nodup_nil, by simp⟩
  | e :: l, hk, hnd, hnt => by
    obtain ⟨n, hn, _⟩ := key_rt k e.1 (hk e (by simp))
    simp only [List.map_cons, List.pairwise_cons] at hnd
    obtain ⟨ns, h1, h2, h3⟩ := keysOk_of_nodup k l (fun x hx => hk x (by simp [hx])) hnd.2
      (fun x hx => hnt x (by simp [hx]))
    refine ⟨n :: ns, by simp [hn, h1], ?_, ?_⟩
    · refine List.nodup_cons.2 ⟨?_, h2⟩
      intro hmem
      -- some later key is spelled `n` too: it is the same datum
      have : ∃ x ∈ l, serKey x.1 = .ok n := by
        have hm : Except.ok n ∈ ns.map (Except.ok (ε := SerErr)) := List.mem_map.2 ⟨n, hmem, rfl⟩
        rw [← h1] at hm
        obtain ⟨x, hx, hxe⟩ := List.mem_map.1 hm
        exact ⟨x, hx, hxe⟩
      obtain ⟨x, hx, hxe⟩ := this
      have heq := serKey_inj k e.1 x.1 n (hk e (by simp)) (hk x (by simp [hx])) hn hxe
      exact hnd.1 x.1 (List.mem_map.2 ⟨x, hx, rfl⟩) heq
    · intro hmem
      rcases List.mem_cons.1 hmem with h | h
      · exact hnt e (by simp) (by rw [hn, h])
      · exact h3 h

end JsonVerif
