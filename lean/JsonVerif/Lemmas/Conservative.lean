import JsonVerif.Lemmas.Run
/-!
# Lenient options are a conservative extension (C12, first clause)

Whatever succeeds under the strict record succeeds with the same result under every record:
on a successful strict run no branch that consults an option is ever taken.
-/
namespace JsonVerif

def strictOpts : ParseOptions := ⟨false, false⟩

theorem noHigh_mono {o : ParseOptions} {acc : List Char} {pe cp : Nat} {r : List Char} {pos : Nat}
    {a : List Char} {hi : Option (Nat × Nat)} {r' : List Char} {p' : Nat}
    (h : noHigh strictOpts acc pe cp r pos = .more a hi r' p') :
    noHigh o acc pe cp r pos = .more a hi r' p' := by
  unfold noHigh at h ⊢
  split
  · simpa [*] using h
  · rename_i hh
    simp only [hh] at h
    split
    · rename_i hc; simpa [hc] using h
    · rename_i hc; simp [hc, strictOpts] at h

theorem flushChar_mono {o : ParseOptions} {acc : List Char} {high : Option (Nat × Nat)} {c : Char}
    {r : List Char} {pos pn : Nat} {a : List Char} {hi : Option (Nat × Nat)} {r' : List Char} {p' : Nat}
    (h : flushChar strictOpts acc high c r pos pn = .more a hi r' p') :
    flushChar o acc high c r pos pn = .more a hi r' p' := by
  unfold flushChar at h ⊢
  cases high with
  | none => simpa using h
  | some ph => simp [strictOpts] at h

theorem strEscU_mono {o : ParseOptions} {bad : Bool} {acc : List Char} {high : Option (Nat × Nat)}
    {r2 : List Char} {pe pos : Nat} {a : List Char} {hi : Option (Nat × Nat)} {r : List Char} {p : Nat}
    (h : strEscU strictOpts bad acc high r2 pe pos = .more a hi r p) :
    strEscU o bad acc high r2 pe pos = .more a hi r p := by
  unfold strEscU at h ⊢
  cases h4 : hex4 bad r2 pos with
  | error e => simp [h4] at h
  | ok v =>
    obtain ⟨cp, r3, pos3⟩ := v
    simp only [h4] at h ⊢
    cases high with
    | none => exact noHigh_mono h
    | some ph =>
      obtain ⟨ph, hh⟩ := ph
      simp only at h ⊢
      by_cases hl : isLow cp
      · simp only [hl, ↓reduceIte] at h ⊢
        cases hc : ofCp (pairCp hh cp) with
        | some ch => simpa [hc] using h
        | none => simp [hc, strictOpts] at h
      · simp [hl, strictOpts] at h

theorem strEsc_mono {o : ParseOptions} {bad : Bool} {acc : List Char} {high : Option (Nat × Nat)}
    {r : List Char} {pos pn : Nat} {a : List Char} {hi : Option (Nat × Nat)} {r' : List Char} {p : Nat}
    (h : strEsc strictOpts bad acc high r pos pn = .more a hi r' p) :
    strEsc o bad acc high r pos pn = .more a hi r' p := by
  unfold strEsc at h ⊢
  cases r with
  | nil => simp at h
  | cons e r2 =>
    simp only at h ⊢
    by_cases hu : e = 'u'
    · simp only [hu, ↓reduceIte] at h ⊢
      exact strEscU_mono h
    · simp only [hu, ↓reduceIte] at h ⊢
      cases he : esc2 e with
      | none => simp [he] at h
      | some ch =>
        simp only [he] at h ⊢
        exact flushChar_mono h

theorem strStep_more_mono {o : ParseOptions} {bad : Bool} {acc : List Char} {high : Option (Nat × Nat)}
    {l : List Char} {pos : Nat} {a : List Char} {hi : Option (Nat × Nat)} {r : List Char} {p : Nat}
    (h : strStep strictOpts bad acc high l pos = .more a hi r p) :
    strStep o bad acc high l pos = .more a hi r p := by
  unfold strStep at h ⊢
  cases l with
  | nil => simp at h
  | cons c r0 =>
    simp only at h ⊢
    by_cases hq : c = '"'
    · simp only [hq, ↓reduceIte] at h
      cases high with
      | none => simp at h
      | some ph => simp [strictOpts] at h
    · simp only [hq, ↓reduceIte] at h ⊢
      by_cases hb : c = '\\'
      · simp only [hb, ↓reduceIte] at h ⊢
        exact strEsc_mono h
      · simp only [hb, ↓reduceIte] at h ⊢
        by_cases hc : isControl c
        · simp [hc] at h
        · simp only [hc] at h ⊢
          exact flushChar_mono h

theorem strStep_done_mono {o : ParseOptions} {bad : Bool} {acc : List Char} {high : Option (Nat × Nat)}
    {l : List Char} {pos : Nat} {a r : List Char} {p q : Nat}
    (h : strStep strictOpts bad acc high l pos = .done a r p q) :
    strStep o bad acc high l pos = .done a r p q := by
  have hd := strStep_done_adv h   -- only to reuse the case analysis below
  clear hd
  unfold strStep at h ⊢
  cases l with
  | nil => simp at h
  | cons c r0 =>
    simp only at h ⊢
    by_cases hq : c = '"'
    · simp only [hq, ↓reduceIte] at h ⊢
      cases high with
      | none => simpa using h
      | some ph => simp [strictOpts] at h
    · simp only [hq, ↓reduceIte] at h
      exfalso
      by_cases hb : c = '\\'
      · simp only [hb, ↓reduceIte] at h
        unfold strEsc at h
        repeat' (split at h)
        all_goals (first | cases h | skip)
        · unfold strEscU at h
          repeat' (split at h)
          all_goals (first | cases h | skip)
          all_goals (unfold noHigh at h; repeat' (split at h))
          all_goals cases h
        · unfold flushChar at h
          repeat' (split at h)
          all_goals cases h
      · simp only [hb, ↓reduceIte] at h
        split at h
        · cases h
        · unfold flushChar at h
          repeat' (split at h)
          all_goals cases h

theorem strLoopAux_mono {o : ParseOptions} {bad : Bool} (fuel : List Char) :
    ∀ {acc : List Char} {high : Option (Nat × Nat)} {l : List Char} {pos : Nat}
      {res : List Char × List Char × Nat × Nat},
      strLoopAux strictOpts bad fuel acc high l pos = .ok res →
      strLoopAux o bad fuel acc high l pos = .ok res := by
  induction fuel with
  | nil =>
    intro acc high l pos res h
    rw [strLoopAux] at h ⊢
    split at h
    · rename_i hs; rw [strStep_done_mono hs]; exact h
    · cases h
    · cases h
  | cons c fuel ih =>
    intro acc high l pos res h
    rw [strLoopAux] at h ⊢
    split at h
    · rename_i hs; rw [strStep_done_mono hs]; exact h
    · cases h
    · rename_i hs; rw [strStep_more_mono hs]; exact ih h

theorem strLoop_mono {o : ParseOptions} {bad : Bool}
    {acc : List Char} {high : Option (Nat × Nat)} {l : List Char} {pos : Nat}
    {res : List Char × List Char × Nat × Nat}
    (h : strLoop strictOpts bad acc high l pos = .ok res) : strLoop o bad acc high l pos = .ok res :=
  strLoopAux_mono _ h

theorem lexString_mono {o : ParseOptions} {s : PS} {r : List Char × PS}
    (h : lexString strictOpts s = .ok r) : lexString o s = .ok r := by
  unfold lexString at h ⊢
  simp only [PS.beginFragment_fst, PS.beginFragment_snd, beginFragment_rest, beginFragment_pos, beginFragment_bad] at h ⊢
  cases hr : s.rest with
  | nil => simp [hr] at h
  | cons d r0 =>
    simp only [hr] at h ⊢
    by_cases hd : d = '"'
    · simp only [hd, ↓reduceIte] at h ⊢
      cases hv : strLoop strictOpts s.bad [] none r0 (s.pos + '"'.utf8Size) with
      | error e => simp [hv] at h
      | ok v =>
        rw [strLoop_mono hv]
        simpa [hv] using h
    · simp [hd] at h

theorem lexKeyColon_mono {o : ParseOptions} {s : PS} {r : List Char × Nat × PS}
    (h : lexKeyColon strictOpts s = .ok r) : lexKeyColon o s = .ok r := by
  unfold lexKeyColon at h ⊢
  simp only [PS.beginFragment_fst, PS.beginFragment_snd] at h ⊢
  cases hv : lexString strictOpts s.reserve with
  | error e => simp [hv] at h
  | ok v =>
    rw [lexString_mono hv]
    simpa [hv] using h

theorem startObjectKey_mono {o : ParseOptions} {i : Nat} {s : PS} {r : Fragment × PS}
    (h : startObjectKey strictOpts i s = .ok r) : startObjectKey o i s = .ok r := by
  unfold startObjectKey at h ⊢
  cases hv : lexKeyColon strictOpts s with
  | error e => simp [hv] at h
  | ok v => rw [lexKeyColon_mono hv]; simpa [hv] using h

theorem startObject_mono {o : ParseOptions} {s : PS} {r : Fragment × PS}
    (h : startObject strictOpts s = .ok r) : startObject o s = .ok r := by
  unfold startObject at h ⊢
  simp only [PS.beginFragment_fst, PS.beginFragment_snd] at h ⊢
  cases h1 : expectChar '{' s.reserve with
  | error e => simp [h1] at h
  | ok s1 =>
    simp only [h1] at h ⊢
    cases h2 : skipWs s1 with
    | error e => simp [h2] at h
    | ok s2 =>
      simp only [h2] at h ⊢
      cases hr : s2.rest with
      | nil => simp only [hr] at h ⊢; exact startObjectKey_mono h
      | cons d r0 =>
        simp only [hr] at h ⊢
        by_cases hd : d = '}'
        · simpa only [hd, ↓reduceIte] using h
        · simp only [hd, ↓reduceIte] at h ⊢; exact startObjectKey_mono h

theorem parseFragment_mono {o : ParseOptions} {ctx : Ctx} {s : PS} {r : Fragment × PS}
    (h : parseFragment strictOpts ctx s = .ok r) : parseFragment o ctx s = .ok r := by
  unfold parseFragment at h ⊢
  cases h0 : skipWs s with
  | error e => simp [h0] at h
  | ok s0 =>
    simp only [h0] at h ⊢
    cases hr : s0.rest with
    | nil => simp [hr] at h
    | cons c tl =>
      simp only [hr] at h ⊢
      by_cases h1 : c = 'n'
      · simpa only [h1, ↓reduceIte] using h
      · simp only [h1, ↓reduceIte] at h ⊢
        by_cases h2 : (c = 't' || c = 'f') = true
        · simpa only [h2, ↓reduceIte] using h
        · simp only [h2] at h ⊢
          by_cases h3 : (isDigit c || c = '-') = true
          · simpa only [h3, ↓reduceIte] using h
          · simp only [h3] at h ⊢
            by_cases h4 : c = '"'
            · simp only [h4, ↓reduceIte] at h ⊢
              cases hs : lexString strictOpts s0 with
              | error e => simp [hs] at h
              | ok v => rw [lexString_mono hs]; simpa [hs] using h
            · simp only [h4, ↓reduceIte] at h ⊢
              by_cases h5 : c = '['
              · simpa only [h5, ↓reduceIte] using h
              · simp only [h5, ↓reduceIte] at h ⊢
                by_cases h6 : c = '{'
                · simp only [h6, ↓reduceIte] at h ⊢
                  exact startObject_mono h
                · simp [h6] at h

theorem contObject_mono {o : ParseOptions} {i : Nat} {s : PS} {r : ObjCont × PS}
    (h : contObject strictOpts i s = .ok r) : contObject o i s = .ok r := by
  unfold contObject at h ⊢
  cases h0 : skipWs s with
  | error e => simp [h0] at h
  | ok s0 =>
    simp only [h0] at h ⊢
    cases hr : s0.rest with
    | nil => simp [hr] at h
    | cons d r0 =>
      simp only [hr] at h ⊢
      by_cases hc : d = ','
      · simp only [hc, ↓reduceIte] at h ⊢
        cases h1 : skipWs (s0.adv ',' r0) with
        | error e => simp [h1] at h
        | ok s1 =>
          simp only [h1] at h ⊢
          cases hk : lexKeyColon strictOpts s1 with
          | error e => simp [hk] at h
          | ok v => rw [lexKeyColon_mono hk]; simpa [hk] using h
      · simpa only [hc, ↓reduceIte] using h

theorem run_mono {o : ParseOptions} {stack : List StackItem} {value : Option JValue} {s : PS}
    {r : JValue × PS} (h : run strictOpts stack value s = .ok r) : run o stack value s = .ok r := by
  fun_induction run strictOpts stack value s
  all_goals (first | (cases h; done) | skip)
  case case3 hws hr => rw [run]; simp only [hws, hr]; exact h
  case case5 h1 ih => rw [run]; split <;> simp_all [parseFragment_mono h1]
  case case6 h1 ih => rw [run]; split <;> simp_all [parseFragment_mono h1]
  case case7 h1 ih => rw [run]; split <;> simp_all [parseFragment_mono h1]
  case case9 h1 ih => rw [run]; split <;> simp_all
  case case10 h1 ih => rw [run]; split <;> simp_all
  case case11 ih => rw [run]; exact ih h
  case case13 h1 ih => rw [run]; split <;> simp_all [parseFragment_mono h1]
  case case14 h1 ih => rw [run]; split <;> simp_all [parseFragment_mono h1]
  case case15 h1 ih => rw [run]; split <;> simp_all [parseFragment_mono h1]
  case case17 h1 ih => rw [run]; split <;> simp_all [contObject_mono h1]
  case case18 h1 ih => rw [run]; split <;> simp_all [contObject_mono h1]
  case case20 h1 ih => rw [run]; split <;> simp_all
  case case23 ih =>
    have h1 := parseFragment_mono (o := o) ‹parseFragment _ _ _ = _›
    have h2 := ‹PS.endFragment _ _ = _›
    rw [run]
    split
    · simp_all
    · rename_i hv
      rw [h1] at hv; cases hv
      split
      · simp_all
      · rename_i hv2; rw [h2] at hv2; cases hv2; exact ih h
    · simp_all
    · simp_all
  case case24 h1 ih => rw [run]; split <;> simp_all [parseFragment_mono h1]
  case case25 h1 ih => rw [run]; split <;> simp_all [parseFragment_mono h1]

end JsonVerif
