import JsonVerif.Spec.Grammar
import JsonVerif.Lemmas.Conservative
/-!
# The string scanner of string.rs, under strict options, reads exactly the RFC 8259 `string`
production and returns the characters it denotes (`GBody`).
-/
namespace JsonVerif

theorem hexDigitAt_ok {bad : Bool} {l : List Char} {pos h : Nat} {r : List Char} {p : Nat}
    (hh : hexDigitAt bad l pos = .ok (h, r, p)) : ∃ c, l = c :: r ∧ hexVal c = some h := by
  unfold hexDigitAt at hh
  split at hh
  · cases hh
  · rename_i c r'
    split at hh
    · rename_i h' hv; cases hh; exact ⟨c, rfl, hv⟩
    · cases hh

theorem hexDigitAt_of {bad : Bool} {c : Char} {h : Nat} (r : List Char) (pos : Nat)
    (hv : hexVal c = some h) : hexDigitAt bad (c :: r) pos = .ok (h, r, pos + c.utf8Size) := by
  simp [hexDigitAt, hv]

theorem hex4_ok {bad : Bool} {l : List Char} {pos cp : Nat} {r : List Char} {p : Nat}
    (h : hex4 bad l pos = .ok (cp, r, p)) : ∃ a b c d, l = a :: b :: c :: d :: r ∧ hexCp a b c d = some cp := by
  unfold hex4 at h
  split at h
  · cases h
  · rename_i h3 l1 p1 e1
    split at h
    · cases h
    · rename_i h2 l2 p2 e2
      split at h
      · cases h
      · rename_i h1 l3 p3 e3
        split at h
        · cases h
        · rename_i h0 l4 p4 e4
          cases h
          obtain ⟨a, rfl, ha⟩ := hexDigitAt_ok e1
          obtain ⟨b, rfl, hb⟩ := hexDigitAt_ok e2
          obtain ⟨c, rfl, hc⟩ := hexDigitAt_ok e3
          obtain ⟨d, rfl, hd⟩ := hexDigitAt_ok e4
          exact ⟨a, b, c, d, rfl, by simp [hexCp, ha, hb, hc, hd]⟩

theorem hex4_of {bad : Bool} {a b c d : Char} {cp : Nat} (r : List Char) (pos : Nat)
    (h : hexCp a b c d = some cp) : ∃ p, hex4 bad (a :: b :: c :: d :: r) pos = .ok (cp, r, p) := by
  unfold hexCp at h
  split at h
  · rename_i x3 x2 x1 x0 h3 h2 h1 h0
    cases h
    exact ⟨pos + a.utf8Size + b.utf8Size + c.utf8Size + d.utf8Size,
      by simp [hex4, hexDigitAt_of _ _ h3, hexDigitAt_of _ _ h2, hexDigitAt_of _ _ h1, hexDigitAt_of _ _ h0]⟩
  · cases h

/-- strict options -/
abbrev so : ParseOptions := ⟨false, false⟩

/-! ## One iteration, no high surrogate pending -/

theorem strStep_none_done {bad : Bool} {acc l : List Char} {pos : Nat} {a r : List Char} {p q : Nat}
    (h : strStep so bad acc none l pos = .done a r p q) : l = '"' :: r ∧ a = acc := by
  unfold strStep at h
  split at h
  · cases h
  · rename_i c r'
    split at h
    · rename_i hc; cases h; exact ⟨by rw [hc], rfl⟩
    · split at h
      · unfold strEsc at h
        split at h
        · cases h
        · split at h
          · unfold strEscU at h
            split at h
            · cases h
            · simp only [noHigh] at h
              repeat' (split at h)
              all_goals cases h
          · split at h
            · simp [flushChar] at h
            · cases h
      · split at h
        · cases h
        · simp [flushChar] at h

theorem strStep_none_more {bad : Bool} {acc l : List Char} {pos : Nat} {a : List Char}
    {hi : Option (Nat × Nat)} {r : List Char} {p : Nat}
    (h : strStep so bad acc none l pos = .more a hi r p) :
    (∃ t ch, l = t ++ r ∧ GElem t ch ∧ a = acc ++ [ch] ∧ hi = none) ∨
    (∃ x y z w cp pe, l = '\\' :: 'u' :: x :: y :: z :: w :: r ∧ hexCp x y z w = some cp ∧
        isHigh cp = true ∧ a = acc ∧ hi = some (pe, cp)) := by
  unfold strStep at h
  split at h
  · cases h
  · rename_i c r'
    split at h
    · cases h
    · rename_i hq
      split at h
      · rename_i hb
        subst hb
        unfold strEsc at h
        split at h
        · cases h
        · rename_i e r2
          split at h
          · rename_i he
            subst he
            unfold strEscU at h
            split at h
            · cases h
            · rename_i cp r3 pos3 h4
              obtain ⟨x, y, z, w, rfl, hcp⟩ := hex4_ok h4
              simp only [noHigh] at h
              split at h
              · rename_i hh
                cases h
                exact .inr ⟨x, y, z, w, cp, _, rfl, hcp, hh, rfl, rfl⟩
              · rename_i hh
                split at h
                · rename_i ch hch
                  cases h
                  exact .inl ⟨['\\', 'u', x, y, z, w], ch, rfl,
                    .u x y z w cp ch hcp (by simpa using hh) hch, rfl, rfl⟩
                · simp at h
          · rename_i he
            split at h
            · rename_i ch hch
              simp only [flushChar] at h
              cases h
              exact .inl ⟨['\\', e], ch, rfl, .esc e ch he hch, rfl, rfl⟩
            · cases h
      · rename_i hb
        split at h
        · cases h
        · rename_i hctl
          simp only [flushChar] at h
          cases h
          exact .inl ⟨[c], c, rfl, .raw c hq hb (by simpa using hctl), rfl, rfl⟩

/-! ## One iteration with a high surrogate pending: only a low-surrogate escape may follow -/

theorem strStep_some_done {bad : Bool} {acc l : List Char} {pos ph hv : Nat} {a r : List Char} {p q : Nat}
    (h : strStep so bad acc (some (ph, hv)) l pos = .done a r p q) : False := by
  unfold strStep at h
  split at h
  · cases h
  · split at h
    · simp at h
    · split at h
      · unfold strEsc at h
        split at h
        · cases h
        · split at h
          · unfold strEscU at h
            split at h
            · cases h
            · simp only at h
              repeat' (split at h)
              all_goals (first | cases h | (simp at h; done) | (rename_i hft; cases hft))
          · split at h
            · simp [flushChar] at h
            · cases h
      · split at h
        · cases h
        · simp [flushChar] at h

theorem strStep_some_more {bad : Bool} {acc l : List Char} {pos ph hv : Nat} {a : List Char}
    {hi : Option (Nat × Nat)} {r : List Char} {p : Nat}
    (h : strStep so bad acc (some (ph, hv)) l pos = .more a hi r p) :
    ∃ x y z w lo ch, l = '\\' :: 'u' :: x :: y :: z :: w :: r ∧ hexCp x y z w = some lo ∧
      isLow lo = true ∧ ofCp (pairCp hv lo) = some ch ∧ a = acc ++ [ch] ∧ hi = none := by
  unfold strStep at h
  split at h
  · cases h
  · rename_i c r'
    split at h
    · simp at h
    · split at h
      · rename_i hb
        subst hb
        unfold strEsc at h
        split at h
        · cases h
        · rename_i e r2
          split at h
          · rename_i he
            subst he
            unfold strEscU at h
            split at h
            · cases h
            · rename_i cp r3 pos3 h4
              obtain ⟨x, y, z, w, rfl, hcp⟩ := hex4_ok h4
              simp only at h
              split at h
              · rename_i hl
                split at h
                · rename_i ch hch
                  cases h
                  exact ⟨x, y, z, w, cp, ch, rfl, hcp, hl, hch, rfl, rfl⟩
                · simp at h
              · simp at h
          · split at h
            · simp [flushChar] at h
            · cases h
      · split at h
        · cases h
        · simp [flushChar] at h

end JsonVerif

namespace JsonVerif

/-! ## The converse: what the scanner does on each `char` production -/

theorem strStep_quote (bad : Bool) (acc r : List Char) (pos : Nat) :
    strStep so bad acc none ('"' :: r) pos = .done acc r (pos + '"'.utf8Size) pos := by
  simp [strStep]

theorem strStep_raw (bad : Bool) (acc r : List Char) (pos : Nat) {c : Char}
    (h1 : c ≠ '"') (h2 : c ≠ '\\') (h3 : isControl c = false) :
    strStep so bad acc none (c :: r) pos = .more (acc ++ [c]) none r (pos + c.utf8Size) := by
  simp [strStep, h1, h2, h3, flushChar]

theorem strStep_esc (bad : Bool) (acc r : List Char) (pos : Nat) {e ch : Char}
    (h1 : e ≠ 'u') (h2 : esc2 e = some ch) :
    ∃ p, strStep so bad acc none ('\\' :: e :: r) pos = .more (acc ++ [ch]) none r p := by
  exact ⟨_, by simp [strStep, strEsc, h1, h2, flushChar]; rfl⟩

theorem strStep_u (bad : Bool) (acc r : List Char) (pos : Nat) {a b c d ch : Char} {cp : Nat}
    (h1 : hexCp a b c d = some cp) (h2 : isHigh cp = false) (h3 : ofCp cp = some ch) :
    ∃ p, strStep so bad acc none ('\\' :: 'u' :: a :: b :: c :: d :: r) pos = .more (acc ++ [ch]) none r p := by
  obtain ⟨p, hp⟩ := hex4_of (bad := bad) r (pos + '\\'.utf8Size + 'u'.utf8Size) h1
  exact ⟨p, by simp [strStep, strEsc, strEscU, hp, noHigh, h2, h3]⟩

theorem strStep_high (bad : Bool) (acc r : List Char) (pos : Nat) {a b c d : Char} {hi : Nat}
    (h1 : hexCp a b c d = some hi) (h2 : isHigh hi = true) :
    ∃ pe p, strStep so bad acc none ('\\' :: 'u' :: a :: b :: c :: d :: r) pos = .more acc (some (pe, hi)) r p := by
  obtain ⟨p, hp⟩ := hex4_of (bad := bad) r (pos + '\\'.utf8Size + 'u'.utf8Size) h1
  exact ⟨_, p, by simp [strStep, strEsc, strEscU, hp, noHigh, h2]; rfl⟩

theorem strStep_low (bad : Bool) (acc r : List Char) (pos ph hv : Nat) {a b c d ch : Char} {lo : Nat}
    (h1 : hexCp a b c d = some lo) (h2 : isLow lo = true) (h3 : ofCp (pairCp hv lo) = some ch) :
    ∃ p, strStep so bad acc (some (ph, hv)) ('\\' :: 'u' :: a :: b :: c :: d :: r) pos =
      .more (acc ++ [ch]) none r p := by
  obtain ⟨p, hp⟩ := hex4_of (bad := bad) r (pos + '\\'.utf8Size + 'u'.utf8Size) h1
  exact ⟨p, by simp [strStep, strEsc, strEscU, hp, h2, h3]⟩

/-! ## The loop -/

/-- **Soundness**: if the scanner reaches the closing quote, what it read is a `*char` body and what
    it returns are the characters that body denotes. -/
theorem strLoopAux_sound {bad : Bool} : ∀ (fuel : List Char),
    (∀ acc l pos a r p q, strLoopAux so bad fuel acc none l pos = .ok (a, r, p, q) →
      ∃ t cs, l = t ++ '"' :: r ∧ GBody t cs ∧ a = acc ++ cs) ∧
    (∀ acc ph hv l pos a r p q, strLoopAux so bad fuel acc (some (ph, hv)) l pos = .ok (a, r, p, q) →
      ∃ x y z w lo ch t cs, l = '\\' :: 'u' :: x :: y :: z :: w :: (t ++ '"' :: r) ∧
        hexCp x y z w = some lo ∧ isLow lo = true ∧ ofCp (pairCp hv lo) = some ch ∧ GBody t cs ∧
        a = acc ++ ch :: cs) := by
  intro fuel
  induction fuel with
  | nil =>
    constructor
    · intro acc l pos a r p q h
      unfold strLoopAux at h
      split at h
      · rename_i hs; cases h
        obtain ⟨rfl, rfl⟩ := strStep_none_done hs
        exact ⟨[], [], rfl, .nil, by simp⟩
      · cases h
      · cases h
    · intro acc ph hv l pos a r p q h
      unfold strLoopAux at h
      split at h
      · rename_i hs; exact (strStep_some_done hs).elim
      · cases h
      · cases h
  | cons f fuel ih =>
    obtain ⟨ihN, ihS⟩ := ih
    constructor
    · intro acc l pos a r p q h
      unfold strLoopAux at h
      split at h
      · rename_i hs; cases h
        obtain ⟨rfl, rfl⟩ := strStep_none_done hs
        exact ⟨[], [], rfl, .nil, by simp⟩
      · cases h
      · rename_i a1 hi1 r1 p1 hs
        simp only at h
        rcases strStep_none_more hs with ⟨te, ch, rfl, hel, rfl, rfl⟩ | ⟨x, y, z, w, cp, pe, rfl, hcp, hh, rfl, rfl⟩
        · obtain ⟨t, cs, rfl, hb, rfl⟩ := ihN _ _ _ _ _ _ _ h
          exact ⟨te ++ t, ch :: cs, by simp, .cons te ch t cs hel hb, by simp⟩
        · obtain ⟨x', y', z', w', lo, ch, t, cs, rfl, hlo, hl, hch, hb, rfl⟩ := ihS _ _ _ _ _ _ _ _ _ h
          exact ⟨['\\', 'u', x, y, z, w, '\\', 'u', x', y', z', w'] ++ t, ch :: cs, by simp,
            .cons _ ch t cs (.pair x y z w x' y' z' w' cp lo ch hcp hh hlo hl hch) hb, rfl⟩
    · intro acc ph hv l pos a r p q h
      unfold strLoopAux at h
      split at h
      · rename_i hs; exact (strStep_some_done hs).elim
      · cases h
      · rename_i a1 hi1 r1 p1 hs
        simp only at h
        obtain ⟨x, y, z, w, lo, ch, rfl, hlo, hl, hch, rfl, rfl⟩ := strStep_some_more hs
        obtain ⟨t, cs, rfl, hb, rfl⟩ := ihN _ _ _ _ _ _ _ h
        exact ⟨x, y, z, w, lo, ch, t, cs, rfl, hlo, hl, hch, hb, by simp⟩

theorem gelem_len {t : List Char} {c : Char} (h : GElem t c) : 1 ≤ t.length := by
  cases h <;> simp

/-- **Completeness**: every `*char` body followed by the closing quote is read to that quote, and
    the characters it denotes are returned. -/
theorem strLoopAux_complete {bad : Bool} {t cs : List Char} (hb : GBody t cs) :
    ∀ (fuel acc r : List Char) (pos : Nat), t.length ≤ fuel.length →
      ∃ p q, strLoopAux so bad fuel acc none (t ++ '"' :: r) pos = .ok (acc ++ cs, r, p, q) := by
  induction hb with
  | nil =>
    intro fuel acc r pos _
    exact ⟨pos + '"'.utf8Size, pos, by unfold strLoopAux; simp [strStep_quote]⟩
  | cons te ch ts cs hel _ ih =>
    intro fuel acc r pos hf
    have hlen := gelem_len hel
    cases fuel with
    | nil => simp only [List.length_append, List.length_nil] at hf; omega
    | cons f fuel =>
      simp only [List.length_append, List.length_cons] at hf
      cases hel with
      | raw c h1 h2 h3 =>
        obtain ⟨p, q, h⟩ := ih fuel (acc ++ [ch]) r (pos + ch.utf8Size) (by simp at hf; omega)
        refine ⟨p, q, ?_⟩
        unfold strLoopAux
        simp only [List.cons_append, List.nil_append, strStep_raw bad acc _ pos h1 h2 h3]
        rw [h]; simp
      | esc e ch h1 h2 =>
        obtain ⟨p1, hs⟩ := strStep_esc bad acc (ts ++ '"' :: r) pos h1 h2
        obtain ⟨p, q, h⟩ := ih fuel (acc ++ [ch]) r p1 (by simp at hf; omega)
        refine ⟨p, q, ?_⟩
        unfold strLoopAux
        simp only [List.cons_append, List.nil_append, hs]
        rw [h]; simp
      | u a b c d cp ch h1 h2 h3 =>
        obtain ⟨p1, hs⟩ := strStep_u bad acc (ts ++ '"' :: r) pos h1 h2 h3
        obtain ⟨p, q, h⟩ := ih fuel (acc ++ [ch]) r p1 (by simp at hf; omega)
        refine ⟨p, q, ?_⟩
        unfold strLoopAux
        simp only [List.cons_append, List.nil_append, hs]
        rw [h]; simp
      | pair a b c d a' b' c' d' hi lo ch h1 h2 h3 h4 h5 =>
        obtain ⟨pe, p1, hs1⟩ := strStep_high bad acc ('\\' :: 'u' :: a' :: b' :: c' :: d' :: (ts ++ '"' :: r)) pos h1 h2
        obtain ⟨p2, hs2⟩ := strStep_low bad acc (ts ++ '"' :: r) p1 pe hi h3 h4 h5
        cases fuel with
        | nil => simp at hf; omega
        | cons f2 fuel =>
          obtain ⟨p, q, h⟩ := ih fuel (acc ++ [ch]) r p2 (by simp at hf; omega)
          refine ⟨p, q, ?_⟩
          unfold strLoopAux
          simp only [List.cons_append, List.nil_append, hs1]
          unfold strLoopAux
          simp only [hs2]
          rw [h]; simp

end JsonVerif
