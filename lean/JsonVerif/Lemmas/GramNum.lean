import JsonVerif.Spec.Grammar
/-!
# The number automaton of number.rs recognises exactly the RFC 8259 `number` production

`Suffix st w`: the grammar's view of "what may still follow" in automaton state `st`. Three facts
— `suffix_step_sound`, `suffix_step_complete`, `suffix_nil` — make the automaton and the ABNF agree
state by state; `numLoop_sound` / `numLoop_complete` lift them to the loop.
-/
namespace JsonVerif

theorem d19_digit {c : Char} (h : isDigit19 c = true) : isDigit c = true := by
  simp only [isDigit19, isDigit, Bool.and_eq_true, decide_eq_true_eq] at *
  refine ⟨?_, h.2⟩
  have : '0' ≤ '1' := by decide
  exact Char.le_trans this h.1

theorem d19_ne0 {c : Char} (h : isDigit19 c = true) : c ≠ '0' := by
  intro e; subst e; revert h; decide

theorem digit_cases {c : Char} (h : isDigit c = true) : c = '0' ∨ isDigit19 c = true := by
  simp only [isDigit19, isDigit, Bool.and_eq_true, decide_eq_true_eq] at *
  by_cases e : c = '0'
  · exact .inl e
  · right
    refine ⟨?_, h.2⟩
    have h1 := h.1
    rw [Char.le_def] at *
    have : c.val ≠ '0'.val := fun x => e (Char.ext x)
    have h0 : ('0'.val).toNat = 48 := by decide
    have h11 : ('1'.val).toNat = 49 := by decide
    rw [UInt32.le_iff_toNat_le] at *
    have : c.val.toNat ≠ 48 := fun x => this (UInt32.toNat_inj.mp (by rw [x, h0]))
    omega

theorem digit_ne {c : Char} (h : isDigit c = true) :
    c ≠ '-' ∧ c ≠ '.' ∧ c ≠ '+' ∧ isE c = false := by
  refine ⟨?_, ?_, ?_, ?_⟩
  · intro e; subst e; revert h; decide
  · intro e; subst e; revert h; decide
  · intro e; subst e; revert h; decide
  · cases he : isE c with
    | false => rfl
    | true =>
      simp only [isE, Bool.or_eq_true, decide_eq_true_eq] at he
      rcases he with e | e <;> (subst e; revert h; decide)

theorem isE_ne {c : Char} (h : isE c = true) : c ≠ '.' ∧ c ≠ '-' ∧ c ≠ '0' := by
  simp only [isE, Bool.or_eq_true, decide_eq_true_eq] at h
  rcases h with e | e <;> (subst e; decide)

theorem AllDigits.nil : AllDigits [] := by intro c h; cases h
theorem AllDigits.cons {c : Char} {ds : List Char} (h : isDigit c = true) (hs : AllDigits ds) :
    AllDigits (c :: ds) := by
  intro x hx
  rcases List.mem_cons.mp hx with e | e
  · subst e; exact h
  · exact hs x e
theorem AllDigits.head {c : Char} {ds : List Char} (h : AllDigits (c :: ds)) : isDigit c = true :=
  h c (List.mem_cons_self)
theorem AllDigits.tail {c : Char} {ds : List Char} (h : AllDigits (c :: ds)) : AllDigits ds :=
  fun x hx => h x (List.mem_cons_of_mem _ hx)

/-- what the grammar still allows after the automaton has reached `st` -/
def Suffix : NumState → List Char → Prop
  | .init, w => GNumber w
  | .firstDigit, w => ∃ i f x, w = i ++ f ++ x ∧ GInt i ∧ GFrac f ∧ GExp x
  | .zero, w => ∃ f x, w = f ++ x ∧ GFrac f ∧ GExp x
  | .nonZero, w => ∃ ds f x, w = ds ++ f ++ x ∧ AllDigits ds ∧ GFrac f ∧ GExp x
  | .fracFirst, w => ∃ c ds x, w = c :: ds ++ x ∧ isDigit c = true ∧ AllDigits ds ∧ GExp x
  | .fracRest, w => ∃ ds x, w = ds ++ x ∧ AllDigits ds ∧ GExp x
  | .expSign, w => GExp ('e' :: w)
  | .expFirst, w => ∃ c ds, w = c :: ds ∧ isDigit c = true ∧ AllDigits ds
  | .expRest, w => AllDigits w

theorem gexp_e {e : Char} {w : List Char} (he : isE e = true) : GExp (e :: w) ↔ GExp ('e' :: w) := by
  constructor
  · intro h
    cases h with
    | plain _ c ds _ hc hd => exact .plain 'e' c ds (by decide) hc hd
    | signed _ sg c ds _ hs hc hd => exact .signed 'e' sg c ds (by decide) hs hc hd
  · intro h
    cases h with
    | plain _ c ds _ hc hd => exact .plain e c ds he hc hd
    | signed _ sg c ds _ hs hc hd => exact .signed e sg c ds he hs hc hd

/-- the empty suffix is allowed exactly in the accepting states -/
theorem suffix_nil (st : NumState) : Suffix st [] ↔ st.accepting = true := by
  cases st <;> simp only [Suffix, NumState.accepting]
  · -- init
    constructor
    · intro h
      generalize hw : ([] : List Char) = w at h
      cases h with
      | pos i f e hi => cases hi <;> simp at hw
      | neg i f e hi => simp at hw
    · intro h; cases h
  · constructor
    · rintro ⟨i, f, x, h, hi, _, _⟩
      cases hi <;> simp at h
    · intro h; cases h
  · exact ⟨fun _ => trivial, fun _ => ⟨[], [], rfl, .none, .none⟩⟩
  · exact ⟨fun _ => trivial, fun _ => ⟨[], [], [], rfl, AllDigits.nil, .none, .none⟩⟩
  · constructor
    · rintro ⟨c, ds, x, h, _⟩; simp at h
    · intro h; cases h
  · exact ⟨fun _ => trivial, fun _ => ⟨[], [], rfl, AllDigits.nil, .none⟩⟩
  · constructor
    · intro h; cases h
    · intro h; cases h
  · constructor
    · rintro ⟨c, ds, h, _⟩; cases h
    · intro h; cases h
  · exact ⟨fun _ => trivial, fun _ => AllDigits.nil⟩

/-- soundness of one transition -/
theorem suffix_step_sound {ctx : Ctx} {st st' : NumState} {c : Char} {w : List Char}
    (ht : numTrans ctx st c = .to st') (hw : Suffix st' w) : Suffix st (c :: w) := by
  cases st <;> simp only [numTrans] at ht
  · -- init
    split at ht
    · rename_i hc; cases ht; subst hc
      obtain ⟨i, f, x, rfl, hi, hf, hx⟩ := hw
      exact .neg i f x hi hf hx
    · split at ht
      · rename_i hc; cases ht; subst hc
        obtain ⟨f, x, rfl, hf, hx⟩ := hw
        exact .pos ['0'] f x .zero hf hx
      · split at ht
        · rename_i hc; cases ht
          obtain ⟨ds, f, x, rfl, hd, hf, hx⟩ := hw
          have := GNumber.pos (c :: ds) f x (.nz c ds hc hd) hf hx
          simp only [Suffix]
          simpa using this
        · cases ht
  · -- firstDigit
    split at ht
    · rename_i hc; cases ht; subst hc
      obtain ⟨f, x, rfl, hf, hx⟩ := hw
      exact ⟨['0'], f, x, rfl, .zero, hf, hx⟩
    · split at ht
      · rename_i hc; cases ht
        obtain ⟨ds, f, x, rfl, hd, hf, hx⟩ := hw
        exact ⟨c :: ds, f, x, by simp, .nz c ds hc hd, hf, hx⟩
      · cases ht
  · -- zero
    split at ht
    · rename_i hc; cases ht; subst hc
      obtain ⟨c', ds, x, rfl, hc', hd, hx⟩ := hw
      exact ⟨'.' :: c' :: ds, x, by simp, .some c' ds hc' hd, hx⟩
    · split at ht
      · rename_i hc; cases ht
        exact ⟨[], c :: w, rfl, .none, (gexp_e hc).mpr hw⟩
      · split at ht <;> cases ht
  · -- nonZero
    split at ht
    · rename_i hc; cases ht
      obtain ⟨ds, f, x, rfl, hd, hf, hx⟩ := hw
      exact ⟨c :: ds, f, x, by simp, AllDigits.cons hc hd, hf, hx⟩
    · split at ht
      · rename_i hc; cases ht; subst hc
        obtain ⟨c', ds, x, rfl, hc', hd, hx⟩ := hw
        exact ⟨[], '.' :: c' :: ds, x, by simp, AllDigits.nil, .some c' ds hc' hd, hx⟩
      · split at ht
        · rename_i hc; cases ht
          exact ⟨[], [], c :: w, rfl, AllDigits.nil, .none, (gexp_e hc).mpr hw⟩
        · split at ht <;> cases ht
  · -- fracFirst
    split at ht
    · rename_i hc; cases ht
      obtain ⟨ds, x, rfl, hd, hx⟩ := hw
      exact ⟨c, ds, x, rfl, hc, hd, hx⟩
    · cases ht
  · -- fracRest
    split at ht
    · rename_i hc; cases ht
      obtain ⟨ds, x, rfl, hd, hx⟩ := hw
      exact ⟨c :: ds, x, rfl, AllDigits.cons hc hd, hx⟩
    · split at ht
      · rename_i hc; cases ht
        exact ⟨[], c :: w, rfl, AllDigits.nil, (gexp_e hc).mpr hw⟩
      · split at ht <;> cases ht
  · -- expSign
    split at ht
    · rename_i hc; cases ht
      obtain ⟨c', ds, rfl, hc', hd⟩ := hw
      simp only [Bool.or_eq_true, decide_eq_true_eq] at hc
      exact .signed 'e' c c' ds (by decide) hc hc' hd
    · split at ht
      · rename_i hc; cases ht
        exact .plain 'e' c w (by decide) hc hw
      · cases ht
  · -- expFirst
    split at ht
    · rename_i hc; cases ht; exact ⟨c, w, rfl, hc, hw⟩
    · cases ht
  · -- expRest
    split at ht
    · rename_i hc; cases ht; exact AllDigits.cons hc hw
    · split at ht <;> cases ht

end JsonVerif

namespace JsonVerif

theorem gint_cons {c : Char} {w : List Char} {i r : List Char} (hi : GInt i) (h : c :: w = i ++ r) :
    (c = '0' ∧ i = ['0'] ∧ w = r) ∨ (isDigit19 c = true ∧ ∃ ds, i = c :: ds ∧ AllDigits ds ∧ w = ds ++ r) := by
  cases hi with
  | zero => simp at h; exact .inl ⟨h.1, rfl, h.2⟩
  | nz c' ds hc hd => simp at h; obtain ⟨rfl, rfl⟩ := h; exact .inr ⟨hc, ds, rfl, hd, rfl⟩

theorem gexp_cons {c : Char} {w : List Char} (h : GExp (c :: w)) : isE c = true ∧ GExp ('e' :: w) := by
  cases h with
  | plain _ c' ds he hc hd => exact ⟨he, .plain 'e' c' ds (by decide) hc hd⟩
  | signed _ sg c' ds he hs hc hd => exact ⟨he, .signed 'e' sg c' ds (by decide) hs hc hd⟩

/-- `f ++ x` with `GFrac f`, `GExp x`, starting with `c` -/
theorem frac_exp_cons {c : Char} {w f x : List Char} (hf : GFrac f) (hx : GExp x) (h : c :: w = f ++ x) :
    (c = '.' ∧ ∃ c' ds, w = c' :: ds ++ x ∧ isDigit c' = true ∧ AllDigits ds) ∨
    (isE c = true ∧ GExp ('e' :: w)) := by
  cases hf with
  | some c' ds hc hd => simp at h; obtain ⟨rfl, rfl⟩ := h; exact .inl ⟨rfl, c', ds, by simp, hc, hd⟩
  | none => simp at h; subst h; exact .inr (gexp_cons hx)

/-- completeness of one transition: what the grammar allows, the automaton follows -/
theorem suffix_step_complete (ctx : Ctx) {st : NumState} {c : Char} {w : List Char}
    (hw : Suffix st (c :: w)) : ∃ st', numTrans ctx st c = .to st' ∧ Suffix st' w := by
  cases st <;> simp only [Suffix] at hw
  · -- init
    generalize hcw : c :: w = t at hw
    cases hw with
    | neg i f e hi hf he =>
      simp at hcw; obtain ⟨rfl, rfl⟩ := hcw
      exact ⟨.firstDigit, by simp [numTrans], i, f, e, by simp, hi, hf, he⟩
    | pos i f e hi hf he =>
      rw [List.append_assoc] at hcw
      rcases gint_cons hi hcw with ⟨rfl, rfl, rfl⟩ | ⟨hc, ds, rfl, hd, rfl⟩
      · exact ⟨.zero, by simp [numTrans], f, e, rfl, hf, he⟩
      · have := digit_ne (d19_digit hc)
        exact ⟨.nonZero, by simp [numTrans, this.1, d19_ne0 hc, hc], ds, f, e, by simp, hd, hf, he⟩
  · -- firstDigit
    obtain ⟨i, f, x, h, hi, hf, hx⟩ := hw
    rw [List.append_assoc] at h
    rcases gint_cons hi h with ⟨rfl, rfl, rfl⟩ | ⟨hc, ds, rfl, hd, rfl⟩
    · exact ⟨.zero, by simp [numTrans], f, x, rfl, hf, hx⟩
    · exact ⟨.nonZero, by simp [numTrans, d19_ne0 hc, hc], ds, f, x, by simp, hd, hf, hx⟩
  · -- zero
    obtain ⟨f, x, h, hf, hx⟩ := hw
    rcases frac_exp_cons hf hx h with ⟨rfl, c', ds, rfl, hc', hd⟩ | ⟨he, hx'⟩
    · exact ⟨.fracFirst, by simp [numTrans], c', ds, x, rfl, hc', hd, hx⟩
    · exact ⟨.expSign, by simp [numTrans, (isE_ne he).1, he], hx'⟩
  · -- nonZero
    obtain ⟨ds, f, x, h, hd, hf, hx⟩ := hw
    cases ds with
    | cons d ds' =>
      simp at h; obtain ⟨rfl, rfl⟩ := h
      exact ⟨.nonZero, by simp [numTrans, hd.head], ds', f, x, by simp, hd.tail, hf, hx⟩
    | nil =>
      simp only [List.nil_append] at h
      rcases frac_exp_cons hf hx h with ⟨rfl, c', ds, rfl, hc', hd'⟩ | ⟨he, hx'⟩
      · exact ⟨.fracFirst, by simp [numTrans, isDigit], c', ds, x, rfl, hc', hd', hx⟩
      · have hnd : isDigit c = false := by
          cases hdc : isDigit c with
          | false => rfl
          | true => have := (digit_ne hdc).2.2.2; rw [he] at this; cases this
        exact ⟨.expSign, by simp [numTrans, hnd, (isE_ne he).1, he], hx'⟩
  · -- fracFirst
    obtain ⟨c', ds, x, h, hc', hd, hx⟩ := hw
    simp at h; obtain ⟨rfl, rfl⟩ := h
    exact ⟨.fracRest, by simp [numTrans, hc'], ds, x, rfl, hd, hx⟩
  · -- fracRest
    obtain ⟨ds, x, h, hd, hx⟩ := hw
    cases ds with
    | cons d ds' =>
      simp at h; obtain ⟨rfl, rfl⟩ := h
      exact ⟨.fracRest, by simp [numTrans, hd.head], ds', x, rfl, hd.tail, hx⟩
    | nil =>
      simp only [List.nil_append] at h
      subst h
      obtain ⟨he, hx'⟩ := gexp_cons hx
      have hnd : isDigit c = false := by
        cases hdc : isDigit c with
        | false => rfl
        | true => have := (digit_ne hdc).2.2.2; rw [he] at this; cases this
      exact ⟨.expSign, by simp [numTrans, hnd, he], hx'⟩
  · -- expSign
    cases hw with
    | plain _ c' ds he hc hd =>
      have := digit_ne hc
      exact ⟨.expRest, by simp [numTrans, this.1, this.2.2.1, hc], hd⟩
    | signed _ sg c' ds he hs hc hd =>
      exact ⟨.expFirst, by simp [numTrans, hs], c', ds, rfl, hc, hd⟩
  · -- expFirst
    obtain ⟨c', ds, h, hc, hd⟩ := hw
    cases h
    exact ⟨.expRest, by simp [numTrans, hc], hd⟩
  · -- expRest
    exact ⟨.expRest, by simp [numTrans, hw.head], hw.tail⟩

/-- a character that may follow a value stops the automaton in an accepting state -/
theorem follows_stop {ctx : Ctx} {st : NumState} {c : Char} (hf : ctx.follows c = true)
    (ha : st.accepting = true) : numTrans ctx st c = .stop := by
  have hc : c = ' ' ∨ c = '\t' ∨ c = '\r' ∨ c = '\n' ∨ c = ',' ∨ c = ']' ∨ c = ':' ∨ c = '}' := by
    cases ctx <;> simp [Ctx.follows, isWs] at hf <;> grind
  cases st <;> simp [NumState.accepting] at ha <;>
    (rcases hc with rfl | rfl | rfl | rfl | rfl | rfl | rfl | rfl <;>
      simp [numTrans, hf] <;> decide)

/-- **Soundness of the number loop**: whatever it accepts is a `number` continuation. -/
theorem numLoop_sound {ctx : Ctx} : ∀ (l : List Char) {st : NumState} {buf : List Char} {pos : Nat}
    {st' : NumState} {buf' r : List Char} {p : Nat},
    numLoop ctx st buf l pos = .ok (st', buf', r, p) → st'.accepting = true →
    ∃ w, buf' = buf ++ w ∧ l = w ++ r ∧ Suffix st w := by
  intro l
  induction l with
  | nil =>
    intro st buf pos st' buf' r p h ha
    simp only [numLoop] at h
    cases h
    exact ⟨[], by simp, rfl, (suffix_nil _).mpr ha⟩
  | cons c l ih =>
    intro st buf pos st' buf' r p h ha
    simp only [numLoop] at h
    split at h
    · rename_i st1 ht
      obtain ⟨w, hb, hl, hs⟩ := ih h ha
      exact ⟨c :: w, by rw [hb]; simp, by rw [hl]; rfl, suffix_step_sound ht hs⟩
    · cases h
      exact ⟨[], by simp, rfl, (suffix_nil _).mpr ha⟩
    · cases h

/-- **Completeness of the number loop**: a `number` continuation followed by the end of input or
    by a character that may follow a value in this context is read entirely. -/
theorem numLoop_complete {ctx : Ctx} : ∀ (w : List Char) {st : NumState} (buf r : List Char) (pos : Nat),
    Suffix st w → (∀ c r', r = c :: r' → ctx.follows c = true) →
    ∃ st' p, numLoop ctx st buf (w ++ r) pos = .ok (st', buf ++ w, r, p) ∧ st'.accepting = true := by
  intro w
  induction w with
  | nil =>
    intro st buf r pos hs hr
    have ha := (suffix_nil _).mp hs
    cases r with
    | nil => exact ⟨st, pos, by simp [numLoop], ha⟩
    | cons c r' =>
      refine ⟨st, pos, ?_, ha⟩
      simp only [List.nil_append, numLoop, follows_stop (hr c r' rfl) ha, List.append_nil]
  | cons c w ih =>
    intro st buf r pos hs hr
    obtain ⟨st1, ht, hs1⟩ := suffix_step_complete ctx hs
    obtain ⟨st', p, h, ha⟩ := ih (buf ++ [c]) r (pos + c.utf8Size) hs1 hr
    refine ⟨st', p, ?_, ha⟩
    simp only [List.cons_append, numLoop, ht]
    rw [h]; simp

end JsonVerif
