import JsonVerif.Spec.Grammar
/-!
# The number automaton of number.rs recognises exactly the RFC 8259 `number` production

`Suffix st w`: the grammar's view of "what may still follow" in automaton state `st`. Three facts
— `suffix_step_sound`, `suffix_step_complete`, `suffix_nil` — make the automaton and the ABNF agree
state by state; `numLoop_sound` / `numLoop_complete` lift them to the loop.
-/
namespace JsonVerif

theorem d19_digit {c : Char} (h : isDigit19 c = true) : isDigit c = true := by
  simp only [isDigit19, isDigit, Bool.and_eq_true, decide_eq_true_eq] at *
  refine ⟨?_, h.2⟩
  have : '0' ≤ '1' := by decide
  exact Char.le_trans this h.1

theorem d19_ne0 {c : Char} (h : isDigit19 c = true) : c ≠ '0' := by
  intro e; subst e; revert h; decide

theorem digit_cases {c : Char} (h : isDigit c = true) : c = '0' ∨ isDigit19 c = true := by
  simp only [isDigit19, isDigit, Bool.and_eq_true, decide_eq_true_eq] at *
  by_cases e : c = '0'
  · exact .inl e
  · right
    refine ⟨?_, h.2⟩
    have h1 := h.1
    rw [Char.le_def] at *
    have : c.val ≠ '0'.val := fun x => e (Char.ext x)
    have h0 : ('0'.val).toNat = 48 := by decide
    have h11 : ('1'.val).toNat = 49 := by decide
    rw [UInt32.le_iff_toNat_le] at *
    have : c.val.toNat ≠ 48 := fun x => this (UInt32.toNat_inj.mp (by rw [x, h0]))
    omega

theorem digit_ne {c : Char} (h : isDigit c = true) :
    c ≠ '-' ∧ c ≠ '.' ∧ c ≠ '+' ∧ isE c = false := by
  refine ⟨?_, ?_, ?_, ?_⟩
  · intro e; subst e; revert h; decide
  · intro e; subst e; revert h; decide
  · intro e; subst e; revert h; decide
  · cases he : isE c with
    | false => rfl
    | true =>
      simp only [isE, Bool.or_eq_true, decide_eq_true_eq] at he
      rcases he with e | e <;> (subst e; revert h; decide)

theorem isE_ne {c : Char} (h : isE c = true) : c ≠ '.' ∧ c ≠ '-' ∧ c ≠ '0' := by
  simp only [isE, Bool.or_eq_true, decide_eq_true_eq] at h
  rcases h with e | e <;> (subst e; decide)

theorem AllDigits.nil : AllDigits [] := by intro c h; cases h
theorem AllDigits.cons {c : Char} {ds : List Char} (h : isDigit c = true) (hs : AllDigits ds) :
    AllDigits (c :: ds) := by
  intro x hx
  rcases List.mem_cons.mp hx with e | e
  · subst e; exact h
  · exact hs x e
theorem AllDigits.head {c : Char} {ds : List Char} (h : AllDigits (c :: ds)) : isDigit c = true :=
  h c (List.mem_cons_self)
theorem AllDigits.tail {c : Char} {ds : List Char} (h : AllDigits (c :: ds)) : AllDigits ds :=
  fun x hx => h x (List.mem_cons_of_mem _ hx)

/-- what the grammar still allows after the automaton has reached `st` -/
def Suffix : NumState → List Char → Prop
  | .init, w => GNumber w
  | .firstDigit, w => ∃ i f x, w = i ++ f ++ x ∧ GInt i ∧ GFrac f ∧ GExp x
  | .zero, w => ∃ f x, w = f ++ x ∧ GFrac f ∧ GExp x
  | .nonZero, w => ∃ ds f x, w = ds ++ f ++ x ∧ AllDigits ds ∧ GFrac f ∧ GExp x
  | .fracFirst, w => ∃ c ds x, w = c :: ds ++ x ∧ isDigit c = true ∧ AllDigits ds ∧ GExp x
  | .fracRest, w => ∃ ds x, w = ds ++ x ∧ AllDigits ds ∧ GExp x
  | .expSign, w => GExp ('e' :: w)
  | .expFirst, w => ∃ c ds, w = c :: ds ∧ isDigit c = true ∧ AllDigits ds
  | .expRest, w => AllDigits w

theorem gexp_e {e : Char} {w : List Char} (he : isE e = true) : GExp (e :: w) ↔ GExp ('e' :: w) := by
  constructor
  · intro h
    cases h with
    | plain _ c ds _ hc hd => exact .plain 'e' c ds (by decide) hc hd
    | signed _ sg c ds _ hs hc hd => exact .signed 'e' sg c ds (by decide) hs hc hd
  · intro h
    cases h with
    | plain _ c ds _ hc hd => exact .plain e c ds he hc hd
    | signed _ sg c ds _ hs hc hd => exact .signed e sg c ds he hs hc hd

/-- the empty suffix is allowed exactly in the accepting states -/
theorem suffix_nil (st : NumState) : Suffix st [] ↔ st.accepting = true := by
  cases st <;> simp only [Suffix, NumState.accepting]
  · -- init
    constructor
    · intro h; cases h with
      | pos i f e hi => cases hi <;> simp at *
    · intro h; cases h
  · constructor
    · rintro ⟨i, f, x, h, hi, _, _⟩
      cases hi <;> simp at h
    · intro h; cases h
  · exact ⟨fun _ => rfl, fun _ => ⟨[], [], rfl, .none, .none⟩⟩
  · exact ⟨fun _ => rfl, fun _ => ⟨[], [], [], rfl, AllDigits.nil, .none, .none⟩⟩
  · constructor
    · rintro ⟨c, ds, x, h, _⟩; simp at h
    · intro h; cases h
  · exact ⟨fun _ => rfl, fun _ => ⟨[], [], rfl, AllDigits.nil, .none⟩⟩
  · constructor
    · intro h; cases h
    · intro h; cases h
  · constructor
    · rintro ⟨c, ds, h, _⟩; cases h
    · intro h; cases h
  · exact ⟨fun _ => rfl, fun _ => AllDigits.nil⟩

/-- soundness of one transition -/
theorem suffix_step_sound {ctx : Ctx} {st st' : NumState} {c : Char} {w : List Char}
    (ht : numTrans ctx st c = .to st') (hw : Suffix st' w) : Suffix st (c :: w) := by
  cases st <;> simp only [numTrans] at ht
  · -- init
    split at ht
    · rename_i hc; cases ht; subst hc
      obtain ⟨i, f, x, rfl, hi, hf, hx⟩ := hw
      exact .neg i f x hi hf hx
    · split at ht
      · rename_i hc; cases ht; subst hc
        obtain ⟨f, x, rfl, hf, hx⟩ := hw
        exact .pos ['0'] f x .zero hf hx
      · split at ht
        · rename_i hc; cases ht
          obtain ⟨ds, f, x, rfl, hd, hf, hx⟩ := hw
          have := GNumber.pos (c :: ds) f x (.nz c ds hc hd) hf hx
          simpa using this
        · cases ht
  · -- firstDigit
    split at ht
    · rename_i hc; cases ht; subst hc
      obtain ⟨f, x, rfl, hf, hx⟩ := hw
      exact ⟨['0'], f, x, rfl, .zero, hf, hx⟩
    · split at ht
      · rename_i hc; cases ht
        obtain ⟨ds, f, x, rfl, hd, hf, hx⟩ := hw
        exact ⟨c :: ds, f, x, by simp, .nz c ds hc hd, hf, hx⟩
      · cases ht
  · -- zero
    split at ht
    · rename_i hc; cases ht; subst hc
      obtain ⟨c', ds, x, rfl, hc', hd, hx⟩ := hw
      exact ⟨'.' :: c' :: ds, x, by simp, .some c' ds hc' hd, hx⟩
    · split at ht
      · rename_i hc; cases ht
        exact ⟨[], c :: w, rfl, .none, (gexp_e hc).mpr hw⟩
      · split at ht <;> cases ht
  · -- nonZero
    split at ht
    · rename_i hc; cases ht
      obtain ⟨ds, f, x, rfl, hd, hf, hx⟩ := hw
      exact ⟨c :: ds, f, x, by simp, AllDigits.cons hc hd, hf, hx⟩
    · split at ht
      · rename_i hc; cases ht; subst hc
        obtain ⟨c', ds, x, rfl, hc', hd, hx⟩ := hw
        exact ⟨[], '.' :: c' :: ds, x, by simp, AllDigits.nil, .some c' ds hc' hd, hx⟩
      · split at ht
        · rename_i hc; cases ht
          exact ⟨[], [], c :: w, rfl, AllDigits.nil, .none, (gexp_e hc).mpr hw⟩
        · split at ht <;> cases ht
  · -- fracFirst
    split at ht
    · rename_i hc; cases ht
      obtain ⟨ds, x, rfl, hd, hx⟩ := hw
      exact ⟨c, ds, x, rfl, hc, hd, hx⟩
    · cases ht
  · -- fracRest
    split at ht
    · rename_i hc; cases ht
      obtain ⟨ds, x, rfl, hd, hx⟩ := hw
      exact ⟨c :: ds, x, rfl, AllDigits.cons hc hd, hx⟩
    · split at ht
      · rename_i hc; cases ht
        exact ⟨[], c :: w, rfl, AllDigits.nil, (gexp_e hc).mpr hw⟩
      · split at ht <;> cases ht
  · -- expSign
    split at ht
    · rename_i hc; cases ht
      obtain ⟨c', ds, rfl, hc', hd⟩ := hw
      simp only [Bool.or_eq_true, decide_eq_true_eq] at hc
      exact .signed 'e' c c' ds (by decide) hc hc' hd
    · split at ht
      · rename_i hc; cases ht
        exact .plain 'e' c w (by decide) hc hw
      · cases ht
  · -- expFirst
    split at ht
    · rename_i hc; cases ht; exact ⟨c, w, rfl, hc, hw⟩
    · cases ht
  · -- expRest
    split at ht
    · rename_i hc; cases ht; exact AllDigits.cons hc hw
    · split at ht <;> cases ht

end JsonVerif
