import JsonVerif.Lemmas.StepComplete
/-!
# The input read before an unexpected-character error can be continued to a JSON text
(lower bound of the viable prefix, C07)
-/
namespace JsonVerif

theorem zcomp_some_nil (v : JValue) : zcomp [] (some v) = [] := rfl

/-- `zcomp` of a configuration that holds a value or whose top frame awaits a separator is just the
    closing brackets -/
theorem zcomp_array (a : List JValue) (i : Nat) (k : List StackItem) (value : Option JValue) :
    zcomp (.array a i :: k) value = ']' :: closers k := by cases value <;> rfl
theorem zcomp_object (es : List JEntry) (i : Nat) (k : List StackItem) (value : Option JValue) :
    zcomp (.object es i :: k) value = '}' :: closers k := by cases value <;> rfl
theorem zcomp_some (k : List StackItem) (v : JValue) : zcomp k (some v) = closers k := by
  cases k with
  | nil => rfl
  | cons it k => cases it <;> rfl

/-- after a complete value: the configuration that holds it closes -/
theorem finish_value (K : List StackItem) (v : JValue) (t : PS) (hk : StackOk t.cm.size K)
    (hb : t.bad = false) (hr : t.rest = closers K) : ∃ res, run allOpts K (some v) t = .ok res :=
  run_close K (some v) t hk hb (by rw [hr, zcomp_some])

theorem finish_frag_top {s : PS} {l comp : List Char} (hd : FragDone .none s l comp) (hb : s.bad = false) :
    ∃ y res, run allOpts [] none (s.re (l ++ y)) = .ok res := by
  rcases hd with hv | ho
  · obtain ⟨v, s', h1, p1⟩ := hv [] (followOK_nil _)
    obtain ⟨res, hres⟩ := finish_value [] v s' trivial (by rw [p1.bad]; exact hb) p1.rest
    refine ⟨comp ++ [], res, ?_⟩
    rw [← List.append_assoc, run]
    split <;> simp_all
  · let r : List Char := '0' :: '}' :: []
    obtain ⟨key, e, s', h1, p1, c1, c2⟩ := ho r
    obtain ⟨res, hres⟩ := run_close [.objectEntry [] s.cm.size key e] none s' ⟨c1, c2, trivial⟩
      (by rw [p1.bad]; exact hb) (by rw [p1.rest]; rfl)
    refine ⟨comp ++ r, res, ?_⟩
    rw [← List.append_assoc, run]
    split <;> simp_all

theorem finish_frag_arr {s : PS} {l comp : List Char} {a : List JValue} {i : Nat} {k : List StackItem}
    (hd : FragDone .array s l comp) (hb : s.bad = false) (hk : StackOk s.cm.size (.arrayItem a i :: k)) :
    ∃ y res, run allOpts (.arrayItem a i :: k) none (s.re (l ++ y)) = .ok res := by
  rcases hd with hv | ho
  · obtain ⟨v, s', h1, p1⟩ := hv (']' :: closers k) (followOK_closers_array k)
    obtain ⟨res, hres⟩ := run_close (.array (a ++ [v]) i :: k) none s' (StackOk.mono (k := .array _ _ :: _) p1.cm hk)
      (by rw [p1.bad]; exact hb) (by rw [p1.rest, zcomp_array])
    refine ⟨comp ++ ']' :: closers k, res, ?_⟩
    rw [← List.append_assoc, run]
    split <;> simp_all
  · let r : List Char := '0' :: '}' :: closers (.arrayItem a i :: k)
    obtain ⟨key, e, s', h1, p1, c1, c2⟩ := ho r
    obtain ⟨res, hres⟩ := run_close (.objectEntry [] s.cm.size key e :: .arrayItem a i :: k) none s'
      ⟨c1, c2, StackOk.mono (k := .arrayItem _ _ :: _) p1.cm hk⟩ (by rw [p1.bad]; exact hb) (by rw [p1.rest]; rfl)
    refine ⟨comp ++ r, res, ?_⟩
    rw [← List.append_assoc, run]
    split <;> simp_all

theorem finish_frag_obj {s : PS} {l comp : List Char} {es : List JEntry} {i : Nat} {key : List Char} {e : Nat}
    {k : List StackItem}
    (hd : FragDone .objectValue s l comp) (hb : s.bad = false)
    (hk : StackOk s.cm.size (.objectEntry es i key e :: k)) :
    ∃ y res, run allOpts (.objectEntry es i key e :: k) none (s.re (l ++ y)) = .ok res := by
  obtain ⟨hi, he, hkk⟩ := hk
  rcases hd with hv | ho
  · obtain ⟨v, s', h1, p1⟩ := hv ('}' :: closers k) (followOK_closers_object k)
    obtain ⟨s'', h2, p2⟩ := endFragment_ok (s := s') (i := e) (Nat.lt_of_lt_of_le he p1.cm)
    obtain ⟨res, hres⟩ := run_close (.object (es ++ [(key, v)]) i :: k) none s''
      ⟨Nat.lt_of_lt_of_le hi (Nat.le_trans p1.cm p2.cm), StackOk.mono (Nat.le_trans p1.cm p2.cm) hkk⟩
      (by rw [p2.bad, p1.bad]; exact hb) (by rw [p2.rest, p1.rest, zcomp_object])
    refine ⟨comp ++ '}' :: closers k, res, ?_⟩
    rw [← List.append_assoc, run]
    split <;> simp_all <;> (split <;> simp_all)
  · let r : List Char := '0' :: '}' :: closers (.objectEntry es i key e :: k)
    obtain ⟨key', e', s', h1, p1, c1, c2⟩ := ho r
    obtain ⟨res, hres⟩ := run_close (.objectEntry [] s.cm.size key' e' :: .objectEntry es i key e :: k) none s'
      ⟨c1, c2, Nat.lt_of_lt_of_le hi p1.cm, Nat.lt_of_lt_of_le he p1.cm, StackOk.mono p1.cm hkk⟩
      (by rw [p1.bad]; exact hb) (by rw [p1.rest]; rfl)
    refine ⟨comp ++ r, res, ?_⟩
    rw [← List.append_assoc, run]
    split <;> simp_all

theorem finish_contArray {s : PS} {l comp : List Char} {a : List JValue} {i : Nat} {k : List StackItem}
    {value : Option JValue}
    (hd : ContArrDone i s l comp) (hb : s.bad = false) (hk : StackOk s.cm.size (.array a i :: k)) :
    ∃ y res, run allOpts (.array a i :: k) value (s.re (l ++ y)) = .ok res := by
  obtain ⟨hi, hkk⟩ := hk
  rcases hd with he | hit
  · obtain ⟨s', h1, p1⟩ := he (closers k)
    obtain ⟨res, hres⟩ := finish_value k (.array a) s' (StackOk.mono p1.cm hkk) (by rw [p1.bad]; exact hb) p1.rest
    refine ⟨comp ++ closers k, res, ?_⟩
    rw [← List.append_assoc, run]
    split <;> simp_all
  · let r : List Char := '0' :: ']' :: closers k
    obtain ⟨s', h1, p1⟩ := hit r
    obtain ⟨res, hres⟩ := run_close (.arrayItem a i :: k) none s'
      ⟨Nat.lt_of_lt_of_le hi p1.cm, StackOk.mono p1.cm hkk⟩ (by rw [p1.bad]; exact hb) (by rw [p1.rest]; rfl)
    refine ⟨comp ++ r, res, ?_⟩
    rw [← List.append_assoc, run]
    split <;> simp_all

theorem finish_contObject {s : PS} {l comp : List Char} {es : List JEntry} {i : Nat} {k : List StackItem}
    {value : Option JValue}
    (hd : ContObjDone i s l comp) (hb : s.bad = false) (hk : StackOk s.cm.size (.object es i :: k)) :
    ∃ y res, run allOpts (.object es i :: k) value (s.re (l ++ y)) = .ok res := by
  obtain ⟨hi, hkk⟩ := hk
  rcases hd with he | hen
  · obtain ⟨s', h1, p1⟩ := he (closers k)
    obtain ⟨res, hres⟩ := finish_value k (.object es) s' (StackOk.mono p1.cm hkk) (by rw [p1.bad]; exact hb) p1.rest
    refine ⟨comp ++ closers k, res, ?_⟩
    rw [← List.append_assoc, run]
    split <;> simp_all
  · let r : List Char := '0' :: '}' :: closers k
    obtain ⟨key, e, s', h1, p1, c1⟩ := hen r
    obtain ⟨res, hres⟩ := run_close (.objectEntry es i key e :: k) none s'
      ⟨Nat.lt_of_lt_of_le hi p1.cm, c1, StackOk.mono p1.cm hkk⟩ (by rw [p1.bad]; exact hb) (by rw [p1.rest]; rfl)
    refine ⟨comp ++ r, res, ?_⟩
    rw [← List.append_assoc, run]
    split <;> simp_all

/-- **Lower bound**: the input read before the machine reports an unexpected character (or the end
    of the input) can be continued so that the run — under the record that allows every `\\uXXXX` —
    succeeds. -/
theorem run_viable (stack : List StackItem) (value : Option JValue) (s : PS) :
    ∀ (l z : List Char) (c : Option Char), s.rest = l ++ z → s.bad = false → StackOk s.cm.size stack →
      run strictOpts stack value s = .error (.unexpected (s.pos + utf8Len l) c) →
      ∃ y res, run allOpts stack value (s.re (l ++ y)) = .ok res := by
  fun_induction run strictOpts stack value s
  case case1 hws =>
    intro l z c hs hb hk h
    cases h
    exact absurd hws skipWs_no_unexpected
  case case2 s v s1 hws c0 tl hr =>
    intro l z c hs hb hk h
    simp only [Except.error.injEq, PErr.unexpected.injEq] at h
    obtain ⟨hp, _⟩ := h
    -- only whitespace was read after the value: the text is already complete
    obtain ⟨w, hw, hwsl⟩ := skipWs_sound hws
    obtain ⟨hl1, _⟩ := adv_cut (skipWs_adv hws) hs hp
    have hlw : l = w := by
      rw [hs, hl1] at hw
      exact List.append_cancel_right hw
    obtain ⟨s', h1, p1, _⟩ := skipWs_complete (s := s.re (l ++ [])) (w := w) (r := []) (by simp [hlw]) hwsl
      (by intro c r e; cases e) (by simpa using hb)
    refine ⟨[], (v, s'), ?_⟩
    rw [run]
    have h1' : skipWs (s.re (l ++ [])) = .ok s' := h1
    simp only [h1', p1.rest]
  case case3 => intro l z c hs hb hk h; cases h
  case case4 h1 =>
    intro l z c hs hb hk h
    simp only [Except.error.injEq] at h
    subst h
    obtain ⟨comp, hd⟩ := parseFragment_touch hs hb (Or.inl ⟨c, h1⟩)
    exact finish_frag_top hd hb
  case case5 v s' h1 ih =>
    intro l z c hs hb hk h
    have hq := (run_err h).pos_le
    rcases Nat.lt_or_eq_of_le hq with hlt | heq
    · obtain ⟨r, hr, hy⟩ := parseFragment_local hs (parseFragment_mono (o := allOpts) h1) hlt
      have bb := local_bound (parseFragment_adv h1) hs hr
      obtain ⟨y, res, hrun⟩ := ih r z c hr (by rw [(parseFragment_adv h1).2.1]; exact hb) (trivial)
        (by rw [bb]; exact h)
      refine ⟨y, res, ?_⟩
      have hy' := hy y
      rw [run]
      split <;> simp_all
    · obtain ⟨comp, hd⟩ := parseFragment_touch hs hb (Or.inr ⟨_, _, h1, heq⟩)
      exact finish_frag_top hd hb
  case case6 i s' h1 ih =>
    intro l z c hs hb hk h
    have hq := (run_err h).pos_le
    rcases Nat.lt_or_eq_of_le hq with hlt | heq
    · obtain ⟨r, hr, hy⟩ := parseFragment_local hs (parseFragment_mono (o := allOpts) h1) hlt
      have bb := local_bound (parseFragment_adv h1) hs hr
      obtain ⟨y, res, hrun⟩ := ih r z c hr (by rw [(parseFragment_adv h1).2.1]; exact hb) (⟨parseFragment_idx h1, trivial⟩)
        (by rw [bb]; exact h)
      refine ⟨y, res, ?_⟩
      have hy' := hy y
      rw [run]
      split <;> simp_all
    · obtain ⟨comp, hd⟩ := parseFragment_touch hs hb (Or.inr ⟨_, _, h1, heq⟩)
      exact finish_frag_top hd hb
  case case7 i key e s' h1 ih =>
    intro l z c hs hb hk h
    have hq := (run_err h).pos_le
    rcases Nat.lt_or_eq_of_le hq with hlt | heq
    · obtain ⟨r, hr, hy⟩ := parseFragment_local hs (parseFragment_mono (o := allOpts) h1) hlt
      have bb := local_bound (parseFragment_adv h1) hs hr
      obtain ⟨y, res, hrun⟩ := ih r z c hr (by rw [(parseFragment_adv h1).2.1]; exact hb) (⟨(parseFragment_idx h1).1, (parseFragment_idx h1).2, trivial⟩)
        (by rw [bb]; exact h)
      refine ⟨y, res, ?_⟩
      have hy' := hy y
      rw [run]
      split <;> simp_all
    · obtain ⟨comp, hd⟩ := parseFragment_touch hs hb (Or.inr ⟨_, _, h1, heq⟩)
      exact finish_frag_top hd hb
  case case8 h1 =>
    intro l z c hs hb hk h
    simp only [Except.error.injEq] at h
    subst h
    obtain ⟨comp, hd⟩ := contArray_touch hs hb hk.1 (Or.inl ⟨c, h1⟩)
    exact finish_contArray hd hb hk
  case case9 s' h1 ih =>
    intro l z c hs hb hk h
    have hq := (run_err h).pos_le
    rcases Nat.lt_or_eq_of_le hq with hlt | heq
    · obtain ⟨r, hr, hy⟩ := contArray_local hs (h1) hlt
      have bb := local_bound (contArray_adv h1) hs hr
      obtain ⟨y, res, hrun⟩ := ih r z c hr (by rw [(contArray_adv h1).2.1]; exact hb) (StackOk.mono (k := _ :: _) (contArray_adv h1).2.2 hk)
        (by rw [bb]; exact h)
      refine ⟨y, res, ?_⟩
      have hy' := hy y
      rw [run]
      split <;> simp_all
    · obtain ⟨comp, hd⟩ := contArray_touch hs hb (hk.1) (Or.inr ⟨_, _, h1, heq⟩)
      exact finish_contArray hd hb hk
  case case10 s' h1 ih =>
    intro l z c hs hb hk h
    have hq := (run_err h).pos_le
    rcases Nat.lt_or_eq_of_le hq with hlt | heq
    · obtain ⟨r, hr, hy⟩ := contArray_local hs (h1) hlt
      have bb := local_bound (contArray_adv h1) hs hr
      obtain ⟨y, res, hrun⟩ := ih r z c hr (by rw [(contArray_adv h1).2.1]; exact hb) (StackOk.mono (contArray_adv h1).2.2 hk.2)
        (by rw [bb]; exact h)
      refine ⟨y, res, ?_⟩
      have hy' := hy y
      rw [run]
      split <;> simp_all
    · obtain ⟨comp, hd⟩ := contArray_touch hs hb (hk.1) (Or.inr ⟨_, _, h1, heq⟩)
      exact finish_contArray hd hb hk
  case case11 ih =>
    intro l z c hs hb hk h
    obtain ⟨y, res, hrun⟩ := ih l z c hs hb hk h
    exact ⟨y, res, by rw [run]; exact hrun⟩
  case case12 h1 =>
    intro l z c hs hb hk h
    simp only [Except.error.injEq] at h
    subst h
    obtain ⟨comp, hd⟩ := parseFragment_touch hs hb (Or.inl ⟨c, h1⟩)
    exact finish_frag_arr hd hb hk
  case case13 v s' h1 ih =>
    intro l z c hs hb hk h
    have hq := (run_err h).pos_le
    rcases Nat.lt_or_eq_of_le hq with hlt | heq
    · obtain ⟨r, hr, hy⟩ := parseFragment_local hs (parseFragment_mono (o := allOpts) h1) hlt
      have bb := local_bound (parseFragment_adv h1) hs hr
      obtain ⟨y, res, hrun⟩ := ih r z c hr (by rw [(parseFragment_adv h1).2.1]; exact hb) (StackOk.mono (k := _ :: _) (parseFragment_adv h1).2.2 hk)
        (by rw [bb]; exact h)
      refine ⟨y, res, ?_⟩
      have hy' := hy y
      rw [run]
      split <;> simp_all
    · obtain ⟨comp, hd⟩ := parseFragment_touch hs hb (Or.inr ⟨_, _, h1, heq⟩)
      exact finish_frag_arr hd hb hk
  case case14 j s' h1 ih =>
    intro l z c hs hb hk h
    have hq := (run_err h).pos_le
    rcases Nat.lt_or_eq_of_le hq with hlt | heq
    · obtain ⟨r, hr, hy⟩ := parseFragment_local hs (parseFragment_mono (o := allOpts) h1) hlt
      have bb := local_bound (parseFragment_adv h1) hs hr
      obtain ⟨y, res, hrun⟩ := ih r z c hr (by rw [(parseFragment_adv h1).2.1]; exact hb) (⟨parseFragment_idx h1, StackOk.mono (k := _ :: _) (parseFragment_adv h1).2.2 hk⟩)
        (by rw [bb]; exact h)
      refine ⟨y, res, ?_⟩
      have hy' := hy y
      rw [run]
      split <;> simp_all
    · obtain ⟨comp, hd⟩ := parseFragment_touch hs hb (Or.inr ⟨_, _, h1, heq⟩)
      exact finish_frag_arr hd hb hk
  case case15 j key e s' h1 ih =>
    intro l z c hs hb hk h
    have hq := (run_err h).pos_le
    rcases Nat.lt_or_eq_of_le hq with hlt | heq
    · obtain ⟨r, hr, hy⟩ := parseFragment_local hs (parseFragment_mono (o := allOpts) h1) hlt
      have bb := local_bound (parseFragment_adv h1) hs hr
      obtain ⟨y, res, hrun⟩ := ih r z c hr (by rw [(parseFragment_adv h1).2.1]; exact hb) (⟨(parseFragment_idx h1).1, (parseFragment_idx h1).2, StackOk.mono (k := _ :: _) (parseFragment_adv h1).2.2 hk⟩)
        (by rw [bb]; exact h)
      refine ⟨y, res, ?_⟩
      have hy' := hy y
      rw [run]
      split <;> simp_all
    · obtain ⟨comp, hd⟩ := parseFragment_touch hs hb (Or.inr ⟨_, _, h1, heq⟩)
      exact finish_frag_arr hd hb hk
  case case16 h1 =>
    intro l z c hs hb hk h
    simp only [Except.error.injEq] at h
    subst h
    obtain ⟨comp, hd⟩ := contObject_touch hs hb hk.1 (Or.inl ⟨c, h1⟩)
    exact finish_contObject hd hb hk
  case case17 key e s' h1 ih =>
    intro l z c hs hb hk h
    have hq := (run_err h).pos_le
    rcases Nat.lt_or_eq_of_le hq with hlt | heq
    · obtain ⟨r, hr, hy⟩ := contObject_local hs (contObject_mono (o := allOpts) h1) hlt
      have bb := local_bound (contObject_adv h1) hs hr
      obtain ⟨y, res, hrun⟩ := ih r z c hr (by rw [(contObject_adv h1).2.1]; exact hb) (⟨(StackOk.mono (k := _ :: _) (contObject_adv h1).2.2 hk).1, contObject_idx h1, (StackOk.mono (k := _ :: _) (contObject_adv h1).2.2 hk).2⟩)
        (by rw [bb]; exact h)
      refine ⟨y, res, ?_⟩
      have hy' := hy y
      rw [run]
      split <;> simp_all
    · obtain ⟨comp, hd⟩ := contObject_touch hs hb (hk.1) (Or.inr ⟨_, _, h1, heq⟩)
      exact finish_contObject hd hb hk
  case case18 s' h1 ih =>
    intro l z c hs hb hk h
    have hq := (run_err h).pos_le
    rcases Nat.lt_or_eq_of_le hq with hlt | heq
    · obtain ⟨r, hr, hy⟩ := contObject_local hs (contObject_mono (o := allOpts) h1) hlt
      have bb := local_bound (contObject_adv h1) hs hr
      obtain ⟨y, res, hrun⟩ := ih r z c hr (by rw [(contObject_adv h1).2.1]; exact hb) (StackOk.mono (contObject_adv h1).2.2 hk.2)
        (by rw [bb]; exact h)
      refine ⟨y, res, ?_⟩
      have hy' := hy y
      rw [run]
      split <;> simp_all
    · obtain ⟨comp, hd⟩ := contObject_touch hs hb (hk.1) (Or.inr ⟨_, _, h1, heq⟩)
      exact finish_contObject hd hb hk
  case case19 h1 =>
    intro l z c hs hb hk h
    simp only [Except.error.injEq] at h
    have := endFragment_err h1
    subst h; cases this
  case case20 s' h1 ih =>
    intro l z c hs hb hk h
    obtain ⟨e1, e2, e3⟩ := endFragment_rest h1
    have hm := StackOk.mono (k := _ :: _) (adv_end h1).2.2 hk
    obtain ⟨y, res, hrun⟩ := ih l z c (by rw [e1]; exact hs) (by rw [e3]; exact hb) ⟨hm.1, hm.2.2⟩ (by rw [e2]; exact h)
    have h1' := endFragment_re h1 (l ++ y)
    refine ⟨y, res, ?_⟩
    rw [run]
    split <;> simp_all
  case case21 h1 =>
    intro l z c hs hb hk h
    simp only [Except.error.injEq] at h
    subst h
    obtain ⟨comp, hd⟩ := parseFragment_touch hs hb (Or.inl ⟨c, h1⟩)
    exact finish_frag_obj hd hb hk
  case case22 =>
    intro l z c hs hb hk h
    simp only [Except.error.injEq] at h
    have := endFragment_err ‹PS.endFragment _ _ = Except.error _›
    subst h; cases this
  case case23 ih =>
    intro l z c hs hb hk h
    have h1 := ‹parseFragment _ _ _ = _›
    have h2 := ‹PS.endFragment _ _ = _›
    obtain ⟨e1, e2, e3⟩ := endFragment_rest h2
    have hq := (run_err h).pos_le
    rw [e2] at hq
    rcases Nat.lt_or_eq_of_le hq with hlt | heq
    · obtain ⟨r, hr, hy⟩ := parseFragment_local hs (parseFragment_mono (o := allOpts) h1) hlt
      have bb := local_bound (parseFragment_adv h1) hs hr
      have hm := StackOk.mono (k := _ :: _) ((parseFragment_adv h1).trans (adv_end h2)).2.2 hk
      obtain ⟨y, res, hrun⟩ := ih r z c (by rw [e1]; exact hr) (by rw [e3, (parseFragment_adv h1).2.1]; exact hb)
        ⟨hm.1, hm.2.2⟩ (by rw [e2, bb]; exact h)
      have h2' := endFragment_re h2 (r ++ y)
      refine ⟨y, res, ?_⟩
      have hy' := hy y
      rw [run]
      split <;> simp_all <;> (split <;> simp_all)
    · obtain ⟨comp, hd⟩ := parseFragment_touch hs hb (Or.inr ⟨_, _, h1, heq⟩)
      exact finish_frag_obj hd hb hk
  case case24 j s' h1 ih =>
    intro l z c hs hb hk h
    have hq := (run_err h).pos_le
    rcases Nat.lt_or_eq_of_le hq with hlt | heq
    · obtain ⟨r, hr, hy⟩ := parseFragment_local hs (parseFragment_mono (o := allOpts) h1) hlt
      have bb := local_bound (parseFragment_adv h1) hs hr
      obtain ⟨y, res, hrun⟩ := ih r z c hr (by rw [(parseFragment_adv h1).2.1]; exact hb) (⟨parseFragment_idx h1, StackOk.mono (k := _ :: _) (parseFragment_adv h1).2.2 hk⟩)
        (by rw [bb]; exact h)
      refine ⟨y, res, ?_⟩
      have hy' := hy y
      rw [run]
      split <;> simp_all
    · obtain ⟨comp, hd⟩ := parseFragment_touch hs hb (Or.inr ⟨_, _, h1, heq⟩)
      exact finish_frag_obj hd hb hk
  case case25 j key' e' s' h1 ih =>
    intro l z c hs hb hk h
    have hq := (run_err h).pos_le
    rcases Nat.lt_or_eq_of_le hq with hlt | heq
    · obtain ⟨r, hr, hy⟩ := parseFragment_local hs (parseFragment_mono (o := allOpts) h1) hlt
      have bb := local_bound (parseFragment_adv h1) hs hr
      obtain ⟨y, res, hrun⟩ := ih r z c hr (by rw [(parseFragment_adv h1).2.1]; exact hb) (⟨(parseFragment_idx h1).1, (parseFragment_idx h1).2, StackOk.mono (k := _ :: _) (parseFragment_adv h1).2.2 hk⟩)
        (by rw [bb]; exact h)
      refine ⟨y, res, ?_⟩
      have hy' := hy y
      rw [run]
      split <;> simp_all
    · obtain ⟨comp, hd⟩ := parseFragment_touch hs hb (Or.inr ⟨_, _, h1, heq⟩)
      exact finish_frag_obj hd hb hk

/-- the input before the reported offset can be continued to a JSON text (every `\\uXXXX` allowed) -/
theorem viable_before (pre rest : List Char) (c : Option Char)
    (h : parseChars strictOpts (pre ++ rest) false = .error (.unexpected (utf8Len pre) c)) :
    ∃ suffix v, LDoc allOpts (pre ++ suffix) v := by
  have h1 := run_of_parseChars_err h
  obtain ⟨y, res, hrun⟩ := run_viable [] none { rest := pre ++ rest, bad := false, pos := 0, cm := #[] }
    pre rest c rfl rfl trivial (by simpa using h1)
  refine ⟨y, res.1, ?_⟩
  apply parse_sound_o allOpts (cm := res.2.cm.toList)
  unfold parseChars
  have : ({ rest := pre ++ rest, bad := false, pos := 0, cm := #[] } : PS).re (pre ++ y) =
      { rest := pre ++ y, bad := false, pos := 0, cm := #[] } := rfl
  rw [this] at hrun
  rw [hrun]

end JsonVerif
