import JsonVerif.Model.Object
/-!
# The key index is never stale (C06): invariant and lookup lemmas

`posOf k es` are the positions of key `k` in the entry list (ascending). The invariant `InvMask S`
says: bucket ghost keys are pairwise distinct, every bucket lists exactly the positions of its key
that satisfy the mask `S` (representative first, then the others ascending), and every key that
occurs at a masked position has a bucket. The full invariant is `Inv := InvMask (fun _ => true)`;
the masked form is what holds *during* bulk construction (`from_vec`, `sort`: positions below `n`)
and in the middle of `push_front` (positions ≥ 1).
-/
namespace JsonVerif
open Obj

def posOf (k : Key) (es : List (Key × JValue)) : List Nat :=
  (List.range es.length).filter (fun i => keyAt es i == some k)

def posMask (S : Nat → Bool) (k : Key) (es : List (Key × JValue)) : List Nat :=
  (posOf k es).filter S

structure InvMask (S : Nat → Bool) (es : List (Key × JValue)) (bs : List Bucket) : Prop where
  nodup : (bs.map (·.gkey)).Nodup
  exact : ∀ b ∈ bs, b.all = posMask S b.gkey es
  cover : ∀ k, posMask S k es ≠ [] → ∃ b ∈ bs, b.gkey = k

def Inv (o : Obj) : Prop := InvMask (fun _ => true) o.entries o.buckets

theorem mem_posOf {k : Key} {es : List (Key × JValue)} {i : Nat} :
    i ∈ posOf k es ↔ keyAt es i = some k := by
  simp only [posOf, List.mem_filter, List.mem_range, beq_iff_eq]
  constructor
  · exact fun h => h.2
  · intro h
    refine ⟨?_, h⟩
    unfold keyAt at h
    cases hi : es[i]? with
    | none => simp [hi] at h
    | some e => exact (List.getElem?_eq_some_iff.mp hi).1

theorem mem_posMask {S : Nat → Bool} {k : Key} {es : List (Key × JValue)} {i : Nat} :
    i ∈ posMask S k es ↔ keyAt es i = some k ∧ S i = true := by
  simp [posMask, mem_posOf]

theorem posOf_sorted (k : Key) (es : List (Key × JValue)) : (posOf k es).Pairwise (· < ·) := by
  unfold posOf
  exact List.Pairwise.filter _ (List.pairwise_lt_range)

theorem posMask_sorted (S : Nat → Bool) (k : Key) (es : List (Key × JValue)) :
    (posMask S k es).Pairwise (· < ·) :=
  List.Pairwise.filter _ (posOf_sorted k es)

/-- two strictly ascending lists with the same members are equal -/
theorem sorted_ext {l1 l2 : List Nat} (h1 : l1.Pairwise (· < ·)) (h2 : l2.Pairwise (· < ·))
    (h : ∀ j, j ∈ l1 ↔ j ∈ l2) : l1 = l2 := by
  apply List.Perm.eq_of_pairwise (le := (· < ·)) _ h1 h2
  · exact (List.perm_ext_iff_of_nodup (h1.imp (fun h => Nat.ne_of_lt h))
      (h2.imp (fun h => Nat.ne_of_lt h))).mpr h
  · intro a b _ _ hab hba; omega

/-- `find?` returns the unique element of a key-distinct list that satisfies the predicate -/
theorem find?_unique {p : Bucket → Bool} {b : Bucket} :
    ∀ {bs : List Bucket}, (bs.map (·.gkey)).Nodup → b ∈ bs → p b = true →
      (∀ c ∈ bs, p c = true → c.gkey = b.gkey) → bs.find? p = some b
  | [], _, hb, _, _ => by cases hb
  | c :: cs, hnd, hb, hp, hu => by
    simp only [List.find?_cons]
    simp only [List.map_cons, List.nodup_cons] at hnd
    by_cases hc : c = b
    · subst hc; simp [hp]
    · have hb' : b ∈ cs := by
        rcases List.mem_cons.mp hb with rfl | hb'
        · exact absurd rfl hc
        · exact hb'
      have hpc : p c = false := by
        cases hpc : p c with
        | false => rfl
        | true =>
          have := hu c (List.mem_cons_self ..) hpc
          exact absurd (List.mem_map.mpr ⟨b, hb', this.symm⟩) hnd.1
      rw [hpc]
      exact find?_unique hnd.2 hb' hp (fun d hd => hu d (List.mem_cons_of_mem _ hd))

/-- the bucket found for `k` under the invariant -/
theorem findBucket_inv {S : Nat → Bool} {es : List (Key × JValue)} {bs : List Bucket}
    (h : InvMask S es bs) (k : Key) :
    (posMask S k es = [] ∧ findBucket es bs k = none) ∨
    (∃ b, b ∈ bs ∧ b.gkey = k ∧ findBucket es bs k = some b ∧ b.all = posMask S k es) := by
  by_cases hp : posMask S k es = []
  · left
    refine ⟨hp, ?_⟩
    unfold findBucket
    rw [List.find?_eq_none]
    intro b hb
    simp only [Bool.and_eq_true, beq_iff_eq, not_and]
    intro hk hr
    have := h.exact b hb
    rw [hk, hp] at this
    simp [Bucket.all] at this
  · right
    obtain ⟨b, hb, hk⟩ := h.cover k hp
    refine ⟨b, hb, hk, ?_, by rw [← hk]; exact h.exact b hb⟩
    have hrep : keyAt es b.rep = some k := by
      have : b.rep ∈ posMask S b.gkey es := by rw [← h.exact b hb]; simp [Bucket.all]
      rw [hk] at this
      exact (mem_posMask.mp this).1
    unfold findBucket
    apply find?_unique h.nodup hb
    · simp [hk, hrep]
    · intro c _ hc
      simp only [Bool.and_eq_true, beq_iff_eq] at hc
      rw [hc.1, hk]

/-! ## Every key-based query is the linear scan (under the full invariant) -/

theorem posMask_true (k : Key) (es : List (Key × JValue)) : posMask (fun _ => true) k es = posOf k es := by
  simp [posMask]

/-- the two cases of a lookup under the full invariant -/
theorem findBucket_full {o : Obj} (h : Inv o) (k : Key) :
    (posOf k o.entries = [] ∧ findBucket o.entries o.buckets k = none) ∨
    (∃ b, findBucket o.entries o.buckets k = some b ∧ posOf k o.entries = b.rep :: b.other) := by
  rcases findBucket_inv h k with ⟨hp, hf⟩ | ⟨b, _, _, hf, hall⟩
  · left; rw [posMask_true] at hp; exact ⟨hp, hf⟩
  · right; rw [posMask_true] at hall; exact ⟨b, hf, hall.symm⟩

theorem indexesOf_eq {o : Obj} (h : Inv o) (k : Key) : o.indexesOf k = posOf k o.entries := by
  unfold indexesOf
  rcases findBucket_full h k with ⟨hp, hf⟩ | ⟨b, hf, hall⟩
  · rw [hf, hp]
  · rw [hf, hall]; rfl

theorem indexOf_eq {o : Obj} (h : Inv o) (k : Key) : o.indexOf k = (posOf k o.entries).head? := by
  unfold indexOf
  rcases findBucket_full h k with ⟨hp, hf⟩ | ⟨b, hf, hall⟩
  · rw [hf, hp]; rfl
  · rw [hf, hall]; rfl

theorem redundantIndexOf_eq {o : Obj} (h : Inv o) (k : Key) :
    o.redundantIndexOf k = (posOf k o.entries)[1]? := by
  unfold redundantIndexOf
  rcases findBucket_full h k with ⟨hp, hf⟩ | ⟨b, hf, hall⟩
  · rw [hf, hp]; rfl
  · rw [hf, hall]; simp [List.head?_eq_getElem?]

theorem containsKey_eq {o : Obj} (h : Inv o) (k : Key) :
    o.containsKey k = !(posOf k o.entries).isEmpty := by
  unfold containsKey
  rcases findBucket_full h k with ⟨hp, hf⟩ | ⟨b, hf, hall⟩
  · rw [hf, hp]; rfl
  · rw [hf, hall]; rfl

theorem mapM_opt_congr {α β : Type} {f g : α → Option β} :
    ∀ {l : List α}, (∀ x ∈ l, f x = g x) → l.mapM f = l.mapM g
  | [], _ => rfl
  | a :: l, h => by
    simp only [List.mapM_cons]
    rw [h a (List.mem_cons_self ..), mapM_opt_congr (fun x hx => h x (List.mem_cons_of_mem _ hx))]

theorem rev_induction {α : Type} {P : List α → Prop} (nil : P [])
    (snoc : ∀ l a, P l → P (l ++ [a])) : ∀ l, P l := by
  intro l
  rw [← List.reverse_reverse l]
  induction l.reverse with
  | nil => simpa using nil
  | cons a r ih => simpa using snoc _ a ih

/-- `get` / `get_entries` never panic under the invariant and return the entries carrying `k`, in
    entry order -/
theorem getEntries_eq {o : Obj} (h : Inv o) (k : Key) :
    o.getEntries k = some (o.entries.filter (fun e => e.1 == k)) := by
  unfold getEntries
  rw [indexesOf_eq h]
  unfold posOf keyAt
  generalize o.entries = es
  -- positions of k, mapped back to entries, are the filtered entries
  induction es using rev_induction with
  | nil => simp
  | snoc es e ih =>
    simp only [List.length_append, List.length_cons, List.length_nil, Nat.zero_add,
      List.range_succ, List.filter_append, List.mapM_append]
    have h1 : (List.filter (fun i => Option.map (fun x => x.fst) (es ++ [e])[i]? == some k) (List.range es.length))
        = List.filter (fun i => Option.map (fun x => x.fst) es[i]? == some k) (List.range es.length) := by
      apply List.filter_congr
      intro i hi
      simp only [List.mem_range] at hi
      rw [List.getElem?_append_left hi]
    have h2 : List.mapM (fun i => (es ++ [e])[i]?) (List.filter (fun i => Option.map (fun x => x.fst) es[i]? == some k) (List.range es.length))
        = List.mapM (fun i => es[i]?) (List.filter (fun i => Option.map (fun x => x.fst) es[i]? == some k) (List.range es.length)) := by
      apply mapM_opt_congr
      intro i hi
      simp only [List.mem_filter, List.mem_range] at hi
      rw [List.getElem?_append_left hi.1]
    rw [h1, h2, ih]
    by_cases hk : e.1 = k
    · simp [hk]
    · simp [hk]

end JsonVerif
