import JsonVerif.Lemmas.Mapped
import JsonVerif.Lemmas.ObjInv
/-!
# Keyed mapped lookups (`get_mapped*`, `get_unique_mapped*`) — C11

The `mapped_entries_iter!` iterators walk the indexes of a key (ascending, from the key index) and
advance a running `(last_index, offset)` pair through the code map. Under the C06 invariant and a
well-formed volume column they yield, for each entry carrying the key, exactly the offsets that
`iter_mapped` assigns to that entry.
-/
namespace JsonVerif
open Obj

/-- code-map offset of entry `i` of an object whose first entry sits at `o` -/
def entryOff : Nat → List (Key × JValue) → Nat → Nat
  | o, _, 0 => o
  | o, [], _ + 1 => o
  | o, (_, v) :: es, i + 1 => entryOff (o + 2 + v.frags) es i

theorem offsetsM_get : ∀ (es : List (Key × JValue)) (o i : Nat), i < es.length →
    (offsetsM o es)[i]? = some (entryOff o es i, entryOff o es i + 1, entryOff o es i + 2)
  | [], _, _, h => by simp at h
  | (k, v) :: es, o, 0, _ => by simp [offsetsM, entryOff]
  | (k, v) :: es, o, i + 1, h => by
    simp only [offsetsM, List.getElem?_cons_succ, entryOff]
    exact offsetsM_get es _ i (by simpa using h)

theorem entryOff_succ : ∀ (es : List (Key × JValue)) (o j : Nat) (h : j < es.length),
    entryOff o es (j + 1) = entryOff o es j + 2 + (es[j]).2.frags
  | [], _, _, h => by simp at h
  | (k, v) :: es, o, 0, _ => by
    cases es <;> simp [entryOff]
  | (k, v) :: es, o, j + 1, h => by
    simp only [entryOff, List.getElem_cons_succ]
    exact entryOff_succ es _ j (by simpa using h)

theorem volAt_entry (cm : List CMEntry) : ∀ (es : List (Key × JValue)) (pre post : List Nat) (j : Nat)
    (hj : j < es.length), volumes cm = pre ++ volsM es ++ post →
    volAt cm (entryOff pre.length es j + 2) = some (es[j]).2.frags
  | [], _, _, _, hj, _ => by simp at hj
  | (k, v) :: es, pre, post, 0, _, h => by
    obtain ⟨t, ht⟩ := volsV_head v
    rw [volAt_eq, h]
    simp only [entryOff, volsM, ht, List.append_assoc, List.cons_append]
    rw [List.getElem?_append_right (by omega)]
    simp
  | (k, v) :: es, pre, post, j + 1, hj, h => by
    have hlen : (pre ++ ((2 + v.frags) :: 1 :: volsV v)).length = pre.length + 2 + v.frags := by
      simp [volsV_length]; omega
    have := volAt_entry cm es (pre ++ ((2 + v.frags) :: 1 :: volsV v)) post j (by simpa using hj)
      (by rw [h]; simp [volsM])
    rw [hlen] at this
    simpa [entryOff] using this

/-- the `while last_index < index` loop, on a well-formed code map -/
theorem advanceTo_eq (cm : List CMEntry) (es : List (Key × JValue)) (pre post : List Nat)
    (h : volumes cm = pre ++ volsM es ++ post) (i : Nat) (hi : i ≤ es.length) :
    ∀ (fuel last : Nat), last ≤ i → i - last ≤ fuel →
      advanceTo cm i fuel last (entryOff pre.length es last) = some (i, entryOff pre.length es i) := by
  intro fuel
  induction fuel with
  | zero =>
    intro last hl hf
    have : last = i := by omega
    subst this; rfl
  | succ fuel ih =>
    intro last hl hf
    simp only [advanceTo]
    by_cases hlt : last < i
    · rw [if_pos hlt, volAt_entry cm es pre post last (by omega) h]
      simp only
      rw [← entryOff_succ es pre.length last (by omega)]
      exact ih (last + 1) (by omega) (by omega)
    · rw [if_neg hlt]
      have : last = i := by omega
      subst this; rfl

theorem mappedEntriesFrom_eq (cm : List CMEntry) (es : List (Key × JValue)) (pre post : List Nat)
    (h : volumes cm = pre ++ volsM es ++ post) :
    ∀ (is : List Nat) (last : Nat), is.Pairwise (· < ·) → (∀ i ∈ is, last ≤ i ∧ i < es.length) →
      mappedEntriesFrom cm is last (entryOff pre.length es last) =
        some (is.map (fun i => (i, entryOff pre.length es i, entryOff pre.length es i + 1,
          entryOff pre.length es i + 2))) := by
  intro is
  induction is with
  | nil => intro _ _ _; rfl
  | cons i is ih =>
    intro last hs hb
    have hi := hb i List.mem_cons_self
    have hc := List.pairwise_cons.mp hs
    simp only [mappedEntriesFrom]
    rw [advanceTo_eq cm es pre post h i (by omega) (i + 1) last hi.1 (by omega)]
    simp only
    rw [ih i hc.2 (fun j hj => ⟨by have := hc.1 j hj; omega, (hb j (List.mem_cons_of_mem _ hj)).2⟩)]
    rfl

/-- **Keyed mapped lookups**: never panic, and yield — for exactly the entries carrying the key, in
    entry order — the entry index and the (entry, key, value) offsets of that entry, the very
    offsets `iter_mapped` assigns to it (`offsetsM_get`). -/
theorem mappedEntries_eq (cm : List CMEntry) (o : Obj) (hinv : Inv o) (pre post : List Nat) (k : Key)
    (h : volumes cm = pre ++ volsV (.object o.entries) ++ post) :
    mappedEntries cm pre.length o k =
      some ((posOf k o.entries).map (fun i =>
        (i, entryOff (pre.length + 1) o.entries i, entryOff (pre.length + 1) o.entries i + 1,
          entryOff (pre.length + 1) o.entries i + 2))) := by
  unfold mappedEntries
  rw [indexesOf_eq hinv k]
  have h' : volumes cm = (pre ++ [1 + JValue.fragsM o.entries]) ++ volsM o.entries ++ post := by
    rw [h]; simp [volsV]
  have := mappedEntriesFrom_eq cm o.entries (pre ++ [1 + JValue.fragsM o.entries]) post h'
    (posOf k o.entries) 0 (posOf_sorted k o.entries)
    (fun i hi => ⟨Nat.zero_le _, by
      have := mem_posOf.mp hi
      unfold keyAt at this
      cases hh : o.entries[i]? with
      | none => simp [hh] at this
      | some e => exact (List.getElem?_eq_some_iff.mp hh).1⟩)
  simpa [entryOff] using this

end JsonVerif
