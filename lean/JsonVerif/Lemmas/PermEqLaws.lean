import JsonVerif.Spec.PermEq
/-!
# `PermEq` (the specification side of C15) is an equivalence relation

`PermEqM a b` is characterised through core's `List.Perm`: `b` is a permutation of a list that is
pointwise related to `a` (`PW`). Symmetry and transitivity follow by moving permutations across `PW`.
-/
namespace JsonVerif

abbrev Entry := List Char × JValue

/-- pointwise: same key, related values -/
inductive PW : List Entry → List Entry → Prop
  | nil : PW [] []
  | cons {k : List Char} {x y : JValue} {a b : List Entry} : PermEq x y → PW a b → PW ((k, x) :: a) ((k, y) :: b)

theorem PW.length {a b : List Entry} (h : PW a b) : a.length = b.length := by
  induction h with
  | nil => rfl
  | cons _ _ ih => simp [ih]

theorem PermEqM.toPW : ∀ {a b : List Entry}, PermEqM a b → ∃ b', PW a b' ∧ b'.Perm b
  | _, _, .nil => ⟨[], .nil, .refl _⟩
  | _, _, .cons (k := k) (y := y) (b1 := b1) (b2 := b2) hxy hrest =>
    match PermEqM.toPW hrest with
    | ⟨b', hpw, hp⟩ => ⟨(k, y) :: b', .cons hxy hpw, ((List.Perm.cons _ hp).trans List.perm_middle.symm)⟩

theorem PermEqM.ofPW {a b' : List Entry} (h : PW a b') : ∀ {b : List Entry}, b'.Perm b → PermEqM a b := by
  induction h with
  | nil => intro b hp; have := hp.symm.eq_nil; subst this; exact .nil
  | @cons k x y a0 b0 hxy _ ih =>
    intro b hp
    have hm : (k, y) ∈ b := hp.subset List.mem_cons_self
    obtain ⟨b1, b2, rfl⟩ := List.append_of_mem hm
    have : b0.Perm (b1 ++ b2) := by
      have h2 := hp.trans List.perm_middle
      exact (List.perm_cons _).mp h2
    exact .cons hxy (ih this)

/-- a permutation of the left list can be mirrored on the right -/
theorem PW.perm_left {l r : List Entry} (h : PW l r) {l2 : List Entry} (hp : l.Perm l2) :
    ∃ r2, r.Perm r2 ∧ PW l2 r2 := by
  induction hp generalizing r with
  | nil => cases h; exact ⟨[], .refl _, .nil⟩
  | cons x _ ih =>
    cases h with
    | cons hxy hrest =>
      obtain ⟨r2, hp2, hpw2⟩ := ih hrest
      exact ⟨_ :: r2, .cons _ hp2, .cons hxy hpw2⟩
  | swap x y l =>
    cases h with
    | cons h1 hrest =>
      cases hrest with
      | cons h2 hrest2 => exact ⟨_, .swap _ _ _, .cons h2 (.cons h1 hrest2)⟩
  | trans _ _ ih1 ih2 =>
    obtain ⟨r2, hp2, hpw2⟩ := ih1 h
    obtain ⟨r3, hp3, hpw3⟩ := ih2 hpw2
    exact ⟨r3, hp2.trans hp3, hpw3⟩

/-- … and a permutation of the right list on the left -/
theorem PW.perm_right {l r : List Entry} (h : PW l r) {r2 : List Entry} (hp : r.Perm r2) :
    ∃ l2, l.Perm l2 ∧ PW l2 r2 := by
  induction hp generalizing l with
  | nil => cases h; exact ⟨[], .refl _, .nil⟩
  | cons x _ ih =>
    cases h with
    | cons hxy hrest =>
      obtain ⟨l2, hp2, hpw2⟩ := ih hrest
      exact ⟨_ :: l2, .cons _ hp2, .cons hxy hpw2⟩
  | swap x y l' =>
    cases h with
    | cons h1 hrest =>
      cases hrest with
      | cons h2 hrest2 => exact ⟨_, .swap _ _ _, .cons h2 (.cons h1 hrest2)⟩
  | trans _ _ ih1 ih2 =>
    obtain ⟨l2, hp2, hpw2⟩ := ih1 h
    obtain ⟨l3, hp3, hpw3⟩ := ih2 hpw2
    exact ⟨l3, hp2.trans hp3, hpw3⟩

theorem PermEqM.length {a b : List Entry} (h : PermEqM a b) : a.length = b.length := by
  obtain ⟨b', hpw, hp⟩ := h.toPW
  rw [hpw.length, hp.length_eq]

mutual
theorem PermEq.symm : ∀ (a b : JValue), PermEq a b → PermEq b a
  | .null, _, h => by cases h; exact .null
  | .bool _, _, h => by cases h; exact .bool _
  | .number _, _, h => by cases h; exact .number _
  | .string _, _, h => by cases h; exact .string _
  | .array xs, _, h => by
    cases h with
    | array hl => exact .array (PermEqL.symm xs _ hl)
  | .object es, _, h => by
    cases h with
    | object hm =>
      obtain ⟨b', hpw, hp⟩ := hm.toPW
      have hpw' := PW.symm es b' hpw
      obtain ⟨a2, hpa, hpw2⟩ := hpw'.perm_left hp
      exact .object (PermEqM.ofPW hpw2 hpa.symm)
theorem PermEqL.symm : ∀ (a b : List JValue), PermEqL a b → PermEqL b a
  | [], _, h => by cases h; exact .nil
  | x :: xs, _, h => by
    cases h with
    | cons hxy hrest => exact .cons (PermEq.symm x _ hxy) (PermEqL.symm xs _ hrest)
theorem PW.symm : ∀ (a b : List Entry), PW a b → PW b a
  | [], _, h => by cases h; exact .nil
  | (k, x) :: a, _, h => by
    cases h with
    | cons hxy hrest => exact .cons (PermEq.symm x _ hxy) (PW.symm a _ hrest)
end

mutual
theorem PermEq.trans : ∀ (a b c : JValue), PermEq a b → PermEq b c → PermEq a c
  | .null, _, _, h1, h2 => by cases h1; exact h2
  | .bool _, _, _, h1, h2 => by cases h1; exact h2
  | .number _, _, _, h1, h2 => by cases h1; exact h2
  | .string _, _, _, h1, h2 => by cases h1; exact h2
  | .array xs, _, _, h1, h2 => by
    cases h1 with
    | array hl1 =>
      cases h2 with
      | array hl2 => exact .array (PermEqL.trans xs _ _ hl1 hl2)
  | .object es, _, _, h1, h2 => by
    cases h1 with
    | object hm1 =>
      cases h2 with
      | object hm2 =>
        obtain ⟨b', hpw1, hp1⟩ := hm1.toPW
        obtain ⟨c', hpw2, hp2⟩ := hm2.toPW
        obtain ⟨c'', hpc, hpw3⟩ := hpw2.perm_left hp1.symm
        have := PW.trans es b' c'' hpw1 hpw3
        exact .object (PermEqM.ofPW this (hpc.symm.trans hp2))
theorem PermEqL.trans : ∀ (a b c : List JValue), PermEqL a b → PermEqL b c → PermEqL a c
  | [], _, _, h1, h2 => by cases h1; exact h2
  | x :: xs, _, _, h1, h2 => by
    cases h1 with
    | cons hxy hr1 =>
      cases h2 with
      | cons hyz hr2 => exact .cons (PermEq.trans x _ _ hxy hyz) (PermEqL.trans xs _ _ hr1 hr2)
theorem PW.trans : ∀ (a b c : List Entry), PW a b → PW b c → PW a c
  | [], _, _, h1, h2 => by cases h1; exact h2
  | (k, x) :: a, _, _, h1, h2 => by
    cases h1 with
    | cons hxy hr1 =>
      cases h2 with
      | cons hyz hr2 => exact .cons (PermEq.trans x _ _ hxy hyz) (PW.trans a _ _ hr1 hr2)
end

end JsonVerif
