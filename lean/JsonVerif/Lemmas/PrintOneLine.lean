import JsonVerif.Lemmas.PrintP
import JsonVerif.Gen.PrintPresets
/-! Consequences of theorem P for records without limits (inline / compact presets). -/
namespace JsonVerif

theorem withinLimit_none (len w : Nat) : withinLimit none len w = true := rfl

mutual
theorem inl_of_nolimit (o : PrintOptions) (ha : o.arrayLimit = none) (hb : o.objectLimit = none) :
    ∀ v, inl o v = true
  | .null => rfl
  | .bool _ => rfl
  | .number _ => rfl
  | .string _ => rfl
  | .array xs => by simp [inl, ha, withinLimit_none, inlL_of_nolimit o ha hb xs]
  | .object es => by simp [inl, hb, withinLimit_none, inlM_of_nolimit o ha hb es]
theorem inlL_of_nolimit (o : PrintOptions) (ha : o.arrayLimit = none) (hb : o.objectLimit = none) :
    ∀ xs, inlL o xs = true
  | [] => rfl
  | x :: xs => by simp [inlL, inl_of_nolimit o ha hb x, inlL_of_nolimit o ha hb xs]
theorem inlM_of_nolimit (o : PrintOptions) (ha : o.arrayLimit = none) (hb : o.objectLimit = none) :
    ∀ es, inlM o es = true
  | [] => rfl
  | (_, x) :: es => by simp [inlM, inl_of_nolimit o ha hb x, inlM_of_nolimit o ha hb es]
end

theorem spec_nolimit (o : PrintOptions) (ha : o.arrayLimit = none) (hb : o.objectLimit = none)
    (ind : Nat) (v : JValue) : specPrint o ind v = oneLine o v :=
  spec_inl o ind v (inl_of_nolimit o ha hb v)

/-- the compact record: every spacing is zero -/
def IsCompact (o : PrintOptions) : Prop :=
  o.arrayBegin = 0 ∧ o.arrayEnd = 0 ∧ o.arrayEmpty = 0 ∧ o.arrayBeforeComma = 0 ∧
  o.arrayAfterComma = 0 ∧ o.arrayLimit = none ∧ o.objectBegin = 0 ∧ o.objectEnd = 0 ∧
  o.objectEmpty = 0 ∧ o.objectBeforeComma = 0 ∧ o.objectAfterComma = 0 ∧
  o.objectBeforeColon = 0 ∧ o.objectAfterColon = 0 ∧ o.objectLimit = none

mutual
theorem oneLine_compact (o : PrintOptions) (h : IsCompact o) : ∀ v, oneLine o v = refSerialize v
  | .null => rfl
  | .bool _ => rfl
  | .number _ => rfl
  | .string _ => rfl
  | .array xs => by
    have hh := h
    obtain ⟨h1, h2, h3, _⟩ := h
    cases xs with
    | nil => simp [oneLine, refSerialize, refSerializeL, h3, spaces]
    | cons x xs =>
      simp [oneLine, refSerialize, h1, h2, spaces, oneLineL_compact o hh (x :: xs) 0]
  | .object es => by
    have hh := h
    obtain ⟨_, _, _, _, _, _, h7, h8, h9, _⟩ := h
    cases es with
    | nil => simp [oneLine, refSerialize, refSerializeM, h9, spaces]
    | cons e es =>
      simp [oneLine, refSerialize, h7, h8, spaces, oneLineM_compact o hh (e :: es) 0]
theorem oneLineL_compact (o : PrintOptions) (h : IsCompact o) :
    ∀ xs i, oneLineL o xs i = refSerializeL xs i
  | [], _ => rfl
  | x :: xs, i => by
    have h4 := h.2.2.2.1; have h5 := h.2.2.2.2.1
    simp [oneLineL, refSerializeL, arrSep, h4, h5, spaces, oneLine_compact o h x,
      oneLineL_compact o h xs (i + 1)]
theorem oneLineM_compact (o : PrintOptions) (h : IsCompact o) :
    ∀ es i, oneLineM o es i = refSerializeM es i
  | [], _ => rfl
  | (k, x) :: es, i => by
    have hh := h
    obtain ⟨_, _, _, _, _, _, _, _, _, h10, h11, h12, h13, _⟩ := h
    simp [oneLineM, refSerializeM, objSep, keyText, h10, h11, h12, h13, spaces,
      oneLine_compact o hh x, oneLineM_compact o hh es (i + 1)]
end

end JsonVerif
